"""C31 — A proxy's property cache reflects the received history (DESIGN §5.C31).

  P-ORDER    in PropertiesCache::init the await that sends `GetAll` starts only after the await of
             PropertiesProxy::receive_properties_changed has completed (subscribe-before-GetAll); the stream
             init returns derives from that subscription (no re-subscription after the snapshot), and the
             cache task hands exactly init's result to keep_updated; the `Cached` state is published only
             after init's await completed (R-ORDER)
  P-SITES    update_cache is called only from the confirmed sites (init's GetAll population, init's buffered
             update, keep_updated), with at least one signal-fed site in init and one in keep_updated (R-WHO)
  P-FILTER   every update_cache call fed from PropertiesChanged arguments is taken only on the true edge of
             `args.interface_name == <the InterfaceName parameter of the enclosing fn>` for the same args value,
             and passes changed_properties / invalidated_properties of that same args value (R-CTRL, sibling)
  P-UNCACHED every update_cache call passes the HashSet parameter of its enclosing fn as the uncached set; that
             parameter is threaded new -> init -> (returned) -> keep_updated, and PropertiesCache::new gets it
             from ProxyInner.uncached_properties
  P-APPLY    inside update_cache every write of PropertyValue.value belongs to one of the two loops (key and
             entry derive from the loop item), is taken only on the false edge of
             `uncached_properties.contains(<that item>)`, writes `None` in the loop over the invalidated slice and
             `Some(<item value>)` in the loop over the changed map, and is followed on every path by
             `Event::notify` on the same entry (streams report the change)
  P-WHO      PropertyValue.value is written only by update_cache (the single consumer that applies messages in
             receive order) and the derived Default. FAILS on the unchanged tree: PropertyChanged::get_raw stores
             the reply of a `Get` call into the cache after an await, unordered with the cache task (finding).

Recognised idioms: the interface filter must be an `==` / `!=` between InterfaceName values (either polarity, `if`,
`match` on the bool, early `continue`); a comparison through `as_str()` or inside a helper fails closed.

Not decided: the ordering guarantees of ordered_stream::join / take_buffered, the match rule built by the
generated receive_properties_changed, value conversion (OwnedValue::try_from failures skip an update).
"""
from .. import mir, awaits as aw
from .. import lib_asyncflow as af

PC = "zbus::proxy::PropertiesCache"
PV = "zbus::proxy::PropertyValue"
ARGS = "zbus::fdo::properties::PropertiesChangedArgs"

META = {
    "technique": "MIR dominance / edge-control / data-flow tracing through coroutine captures + writer-set table",
    "level": ("Every path of PropertiesCache::{init,keep_updated,update_cache} and of the cache task is covered: the "
              "subscription precedes GetAll, both signal-fed update sites are guarded by the same interface comparison "
              "and pass the uncached set, invalidation stores None, uncached names are skipped, every store notifies. "
              "Necessary conditions only: the run-time ordering delivered by ordered_stream and the bus is assumed."),
}


def coroutines_of(f, root_id):
    return [b for b in f.children.get(root_id, []) if b.kind == "coroutine"]


def const_strs(c):
    out = []
    for a in c.args:
        k = mir.op_const(a)
        if k is not None and isinstance(k.get("v"), str):
            out.append(k["v"])
    return out


def is_getall(c):
    if c is None:
        return False
    if c.is_("call_method_raw", "call_method", "call", "call_with_flags") and "GetAll" in const_strs(c):
        return True
    return c.is_("get_all") and "PropertiesProxy" in c.callee


def is_subscribe(c):
    return c is not None and c.is_("receive_properties_changed") and "PropertiesProxy" in c.callee


def field_of(place, name, owner_prefix):
    for p in place[1]:
        if isinstance(p, list) and p[0] == "." and p[2] == name and str(p[3]).startswith(owner_prefix):
            return True
    return False


def args_field_root(body, op, field):
    """local holding the PropertiesChangedArgs when `op` is (a borrow of / deref of) <args>.<field>; else None"""
    o = mir.origin_base(body, op)
    if o[0] == "call" and o[1].is_("deref", "as_ref", "borrow") and o[1].args:
        return args_field_root(body, o[1].args[0], field)
    if o[0] in ("place", "ref") and field_of(o[1], field, ARGS):
        return o[1][0]
    return None


def local_ty(body, l):
    return body.locals[l][0] if l is not None and l < len(body.locals) else ""


def check_order(ctx, f):
    init = ctx.one(coroutines_of(f, PC + "::init"), "coroutine of PropertiesCache::init")
    aws = aw.awaits(f, init)
    subs = [a for a in aws if is_subscribe(a.call)]
    gets = [a for a in aws if is_getall(a.call)]
    ctx.floor("P-ORDER", "awaits of receive_properties_changed in init", len(subs), 1)
    ctx.floor("P-ORDER", "awaits of the GetAll call in init", len(gets), 1)
    for g in gets:
        ok = any(af.await_starts_after(init, g, s) for s in subs)
        ctx.ob("P-ORDER", "subscribe-before-GetAll", ok,
               "GetAll is awaited only after the PropertiesChanged subscription completed" if ok else
               "the GetAll await can start before the PropertiesChanged subscription has completed", g.where)
    # stream returned by init derives from the subscription
    pre = [s for s in subs if gets and all(af.await_starts_after(init, g, s) for g in gets)]
    seeds = {l for s in pre for b, i, l in af.ready_points(init, s)}
    der = mir.derives(init, seeds) if seeds else set()
    rets = []
    for b, i, pl, rv, ln in mir.assignments(init):
        if pl[0] == mir.RET and not pl[1] and rv[0] == "agg" and rv[3] == "Ok" and rv[4]:
            o = mir.origin(init, rv[4][0])
            if o[0] == "rv" and o[1][0] == "agg" and o[1][1] == "tuple" and o[1][4]:
                rets.append((o[1], ln))
    ctx.floor("P-ORDER", "Ok((stream, ..)) results of init", len(rets), 1)
    for tup, ln in rets:
        where = "%s:%d" % (init.file, ln)
        l0 = mir.op_local(tup[4][0])
        ctx.ob("P-ORDER", "returned-stream-is-the-subscription", l0 in der,
               "the stream init returns derives from the subscription made before GetAll" if l0 in der else
               "the stream init returns does not derive from a subscription completed before GetAll (changes between the "
               "snapshot and a later subscription are lost)", where)
        for op in tup[4]:
            if "HashSet" in local_ty(init, mir.op_local(op)):
                src = af.param_source(f, init, op)
                ctx.ob("P-UNCACHED", "init-returns-its-uncached-set", src is not None and "HashSet" in local_ty(src[0], src[1]),
                       "the uncached set init returns is its own parameter", where)
    # the cache task: keep_updated gets init's result; Cached published after init
    task = ctx.one(coroutines_of(f, PC + "::new"), "async block of PropertiesCache::new")
    taws = aw.awaits(f, task)
    ia = [a for a in taws if a.call is not None and a.call.callee == PC + "::init"]
    ka = [a for a in taws if a.call is not None and a.call.callee == PC + "::keep_updated"]
    ctx.floor("P-ORDER", "await of init in the cache task", len(ia), 1)
    ctx.floor("P-ORDER", "await of keep_updated in the cache task", len(ka), 1)
    iseeds = {l for a in ia for b, i, l in af.ready_points(task, a)}
    ider = mir.derives(task, iseeds, through_calls=False) if iseeds else set()
    for a in ka:
        c = a.call
        ok = len(c.args) >= 4 and mir.op_local(c.args[1]) in ider
        ctx.ob("P-ORDER", "keep_updated-gets-init-stream", ok,
               "keep_updated consumes the stream returned by init", c.where)
        ok2 = len(c.args) >= 4 and mir.op_local(c.args[3]) in ider and mir.op_local(c.args[2]) in ider
        ctx.ob("P-UNCACHED", "keep_updated-gets-init-sets", ok2,
               "keep_updated receives the interface and uncached set returned by init", c.where)
        ctx.ob("P-ORDER", "keep_updated-after-init", any(af.await_starts_after(task, a, i) for i in ia),
               "keep_updated starts only after init completed", c.where)
    for a in ia:
        c = a.call
        src = af.param_source(f, task, c.args[3]) if len(c.args) >= 4 else None
        ok = src is not None and src[0].id == PC + "::new" and "HashSet" in local_ty(src[0], src[1])
        ctx.ob("P-UNCACHED", "init-gets-new's-uncached-set", ok,
               "init receives the uncached set given to PropertiesCache::new", c.where)
    n = 0
    for b, i, pl, rv, ln in mir.assignments(task):
        if rv[0] == "agg" and rv[1] == "adt" and rv[2] == "zbus::proxy::CachingResult" and rv[3] == "Cached":
            n += 1
            ok = any(af.after_await(task, a, b) for a in ia)
            ctx.ob("P-ORDER", "ready-published-after-init", ok,
                   "CachingResult::Cached is constructed only after init's await completed", "%s:%d" % (task.file, ln))
    ctx.floor("P-ORDER", "constructions of CachingResult::Cached in the cache task", n, 1)
    # who constructs Cached at all
    for body in f.all_bodies("zbus"):
        for b, i, pl, rv, ln in mir.assignments(body):
            if rv[0] == "agg" and rv[1] == "adt" and rv[2] == "zbus::proxy::CachingResult" and rv[3] == "Cached":
                ctx.ob("P-ORDER", "Cached-constructed-in:" + body.id, body.id == task.id,
                       "CachingResult::Cached constructed in %s" % body.id, "%s:%d" % (body.file, ln))
    # PropertiesCache::new gets the proxy's uncached set
    ncalls = []
    for body in f.all_bodies("zbus"):
        for c in mir.calls(body):
            if c.callee == PC + "::new":
                ncalls.append((body, c))
    ctx.floor("P-UNCACHED", "callers of PropertiesCache::new", len(ncalls), 1)
    for body, c in ncalls:
        seeds = set()
        for b, i, pl, rv, ln in mir.assignments(body):
            for op in mir.rvalue_operands(rv):
                p = mir.op_place(op)
                if p and field_of(p, "uncached_properties", "zbus::proxy::ProxyInner"):
                    seeds.add(pl[0])
        der = mir.derives(body, seeds) if seeds else set()
        ok = len(c.args) >= 4 and mir.op_local(c.args[3]) in der
        ctx.ob("P-UNCACHED", "new-gets-proxy-uncached-set:" + body.root, ok,
               "the set passed to PropertiesCache::new derives from ProxyInner.uncached_properties", c.where)


def check_sites(ctx, f):
    allowed = {PC + "::init", PC + "::keep_updated"}
    sites = []
    for body in f.all_bodies("zbus"):
        for c in mir.calls(body):
            if c.callee == PC + "::update_cache":
                sites.append((body, c))
                ctx.ob("P-SITES", "caller:" + body.root, body.root in allowed,
                       "update_cache called from the cache task" if body.root in allowed else
                       "unexpected caller of update_cache (updates must be applied by the cache task in receive order)", c.where)
    ctx.floor("P-SITES", "call sites of update_cache", len(sites), 3)
    fed = {PC + "::init": 0, PC + "::keep_updated": 0}
    for body, c in sites:
        if len(c.args) < 5:
            ctx.ob("P-SITES", "arity:" + body.id, False, "update_cache call with unexpected arity", c.where)
            continue
        # ---- uncached set
        src = af.param_source(f, body, c.args[1])
        ok = src is not None and src[0].id == body.root and "HashSet" in local_ty(src[0], src[1])
        ctx.ob("P-UNCACHED", "site-passes-uncached-param:" + body.id, ok,
               "uncached set argument is the HashSet parameter of %s" % body.root if ok else
               "uncached set argument of update_cache is not the enclosing function's parameter", c.where)
        # ---- classification: signal-fed or GetAll population
        ch = args_field_root(body, c.args[2], "changed_properties")
        inv = args_field_root(body, c.args[3], "invalidated_properties")
        if ch is None and inv is None:
            # population from the GetAll reply: the invalidated slice must be an empty constant and the
            # changed map must not come from a signal; the site must be in init
            o = mir.origin(body, c.args[3])
            empty = False
            k = None
            if o[0] == "const":
                k = o[1]
            elif o[0] == "rv" and o[1][0] == "cast":
                oo = mir.origin(body, o[1][2])
                k = oo[1] if oo[0] == "const" else None
            if k is not None and "[&str; 0]" in str(k.get("ty", "")):
                empty = True
            ctx.ob("P-SITES", "population-site:" + body.id, body.root == PC + "::init" and empty,
                   "GetAll population in init passes an empty invalidated list" if (body.root == PC + "::init" and empty)
                   else "update_cache site fed neither from PropertiesChanged args nor the GetAll population shape", c.where)
            continue
        ok = ch is not None and ch == inv
        ctx.ob("P-FILTER", "same-args:" + body.id, ok,
               "changed and invalidated come from the same PropertiesChanged args" if ok else
               "changed / invalidated arguments do not come from one PropertiesChanged args value", c.where)
        if not ok:
            continue
        if body.root in fed:
            fed[body.root] += 1
        # ---- interface filter controlling the call
        found = False
        for sb, cc, tt, ft, neg in mir.call_bool_switches(body):
            # a defaulted `ne` resolves to core::cmp::PartialEq::ne: look at declared callee / generic args too
            if not (cc.is_("eq", "ne") and "InterfaceName" in (cc.callee + cc.declared + cc.fnargs)) or len(cc.args) < 2 or tt == ft:
                continue
            if cc.is_("ne"):
                tt, ft = ft, tt
            roots = [args_field_root(body, a, "interface_name") for a in cc.args[:2]]
            if ch not in roots:
                continue
            other = cc.args[1] if roots[0] == ch else cc.args[0]
            src = af.param_source(f, body, other)
            if src is None or src[0].id != body.root or "InterfaceName" not in local_ty(src[0], src[1]):
                continue
            if tt is not None and af.edge_dominates(body, sb, tt, c.b):
                found = True
        ctx.ob("P-FILTER", "interface-filter:" + body.id, found,
               "update is applied only when args.interface_name == the proxy's interface" if found else
               "signal-fed update_cache call is not controlled by `args.interface_name == interface`", c.where)
    for root, n in fed.items():
        ctx.floor("P-FILTER", "signal-fed update sites in " + root, n, 1)


def check_apply(ctx, f):
    uc = ctx.one(f.find(name="update_cache", adt=PC, trait=""), "PropertiesCache::update_cache")
    argc = uc.d["argc"]
    p_unc = [l for l in range(1, argc + 1) if "HashSet" in local_ty(uc, l)]
    p_chg = [l for l in range(1, argc + 1) if "HashMap" in local_ty(uc, l)]
    p_inv = [l for l in range(1, argc + 1) if local_ty(uc, l).startswith("&[")]
    ctx.need(p_unc and p_chg and p_inv and [1], "update_cache parameters (uncached set, changed map, invalidated slice)")
    p_unc, p_chg, p_inv = p_unc[0], p_chg[0], p_inv[0]
    # loops: Iterator::next calls whose iterator comes from into_iter/iter on a parameter
    loops = []
    for c in mir.calls(uc):
        if not (c.is_("next") and "Iterator" in (c.declared + c.callee)):
            continue
        o = mir.origin(uc, c.args[0])
        if o[0] not in ("place", "ref"):
            continue
        itl = o[1][0]
        src = None
        for d in mir.defs_of(uc, itl):
            if d[0] == "assign" and d[4][0] == "use":
                oo = mir.origin(uc, d[4][1])
                if oo[0] == "call" and oo[1].is_("into_iter", "iter") and oo[1].args:
                    ps = af.param_source(f, uc, oo[1].args[0])
                    if ps is not None and ps[0].id == uc.id:
                        src = ps[1]
        if src in (p_chg, p_inv):
            loops.append((c, src, mir.derives(uc, {c.dest[0]})))
    ctx.floor("P-APPLY", "loops over the changed map / invalidated slice", len(loops), 2)
    contains = []
    for sb, cc, tt, ft, neg in mir.call_bool_switches(uc):
        if cc.is_("contains") and "HashSet" in cc.callee and len(cc.args) >= 2 and tt != ft:
            ps = af.param_source(f, uc, cc.args[0])
            if ps is not None and ps[1] == p_unc:
                contains.append((sb, cc, tt, ft))
    writes = []
    for b, i, pl, rv, ln in mir.assignments(uc):
        if field_of(pl, "value", PV):
            writes.append((b, i, pl, rv, ln))
    ctx.floor("P-APPLY", "writes of PropertyValue.value in update_cache", len(writes), 2)
    kinds = {"invalidate": 0, "set": 0}
    notifies = [c for c in mir.calls(uc) if c.is_("notify") and "event_listener" in c.callee]
    for b, i, pl, rv, ln in writes:
        where = "%s:%d" % (uc.file, ln)
        entry = pl[0]
        mine = [(c, src, der) for c, src, der in loops if entry in der]
        # value written
        o = mir.origin(uc, rv[1]) if rv[0] == "use" else ("rv", rv)
        shape = None
        val_local = None
        if o[0] == "rv" and o[1][0] == "agg" and o[1][2] == "core::option::Option":
            shape = o[1][3]
            if shape == "Some" and o[1][4]:
                val_local = mir.op_local(o[1][4][0])
        if len(mine) != 1:
            ctx.ob("P-APPLY", "write-in-loop:%s" % (shape,), False,
                   "write of PropertyValue.value whose entry does not derive from exactly one of the two loop items", where)
            continue
        c, src, der = mine[0]
        kind = "invalidate" if src == p_inv else "set"
        if kind == "invalidate":
            ok = shape == "None"
            ctx.ob("P-APPLY", "invalidation-stores-None", ok,
                   "invalidated property is set to None" if ok else "invalidation loop stores %s" % shape, where)
        else:
            ok = shape == "Some" and val_local in der
            ctx.ob("P-APPLY", "change-stores-Some(new value)", ok,
                   "changed property is set to Some(value of the same map item)" if ok else
                   "change loop stores %s not derived from the map item" % shape, where)
        kinds[kind] += 1
        # uncached skip
        ok = False
        for sb, cc, tt, ft in contains:
            keyl = mir.operand_locals(cc.args[1])
            if any(l in der for l in keyl) and ft is not None and af.edge_dominates(uc, sb, ft, b):
                ok = True
        ctx.ob("P-APPLY", "uncached-skipped:" + kind, ok,
               "store happens only when uncached_properties does not contain the item's name" if ok else
               "store is not controlled by the false edge of uncached_properties.contains(<item name>)", where)
        # notify
        ok = False
        for nc in notifies:
            no = mir.origin(uc, nc.args[0]) if nc.args else None
            if no and no[0] in ("place", "ref") and no[1][0] == entry and field_of(no[1], "event", PV) and \
                    mir.postdominates(uc, nc.point, (b, i)):
                ok = True
        ctx.ob("P-APPLY", "store-notifies:" + kind, ok,
               "every store is followed by Event::notify on the same entry" if ok else
               "a store of PropertyValue.value is not followed by notify on the same entry on every path", where)
    ctx.floor("P-APPLY", "stores in the invalidated loop", kinds["invalidate"], 1)
    ctx.floor("P-APPLY", "stores in the changed loop", kinds["set"], 1)


def check_who(ctx, f):
    n = 0
    for body in f.all_bodies("zbus"):
        for b, i, pl, rv, ln in mir.assignments(body):
            w = field_of(pl, "value", PV)
            agg = rv[0] == "agg" and rv[1] == "adt" and rv[2] == PV
            if not (w or agg):
                continue
            n += 1
            derived_default = agg and body.root == "<%s as core::default::Default>::default" % PV
            ok = body.id == PC + "::update_cache" or derived_default
            ctx.ob("P-WHO", "value-writer:" + body.root, ok,
                   ("derived Default (empty entry)" if derived_default else "the cache task's update_cache") if ok else
                   "PropertyValue.value written outside update_cache: not ordered with the PropertiesChanged stream "
                   "(a later write of an earlier-received value overwrites a newer one)",
                   "%s:%d" % (body.file, ln))
    ctx.floor("P-WHO", "writers of PropertyValue.value", n, 2)


def run(ctx):
    ctx.explanation = ("MIR rules over zbus (K1): in PropertiesCache::init the GetAll await starts after the subscription "
                       "await completed and the returned stream is that subscription; the cache task passes init's "
                       "result to keep_updated and publishes Cached only after init; the two signal-fed update_cache "
                       "sites are controlled by the same `args.interface_name == interface` comparison and pass the "
                       "uncached set threaded from ProxyInner.uncached_properties; inside update_cache every store is "
                       "in its loop, skipped for uncached names, None for invalidation, Some(new) for a change, and "
                       "notifies; PropertyValue.value has no writer outside update_cache.")
    ctx.not_decided = ("ordering semantics of ordered_stream::join/take_buffered and of the bus; the match rule of the "
                       "generated receive_properties_changed; OwnedValue conversion failures.")
    f = ctx.facts("K1")
    check_order(ctx, f)
    check_sites(ctx, f)
    check_apply(ctx, f)
    check_who(ctx, f)
