"""C21 — Match rules select exactly the messages the specification says (DESIGN §5.C21).

All rules look at the MIR of MatchRule::matches (K1).  "Ok(false) block" = a block that stores
`Result::Ok(false)` into the return place.  "computed from X" = value flow through calls/operators
from the place where X is read (views such as deref/as_str and copies do not count as computing, and
the discriminant of X itself is only a presence/shape test).

  M-FIELDS    every field of struct MatchRule (taken from the type, so a new field is covered) is read by
              `matches`, directly or through a one-field accessor
  M-MISMATCH  for every field — and separately for both halves of the (index, value) pairs of `args` /
              `arg_paths` and for both variants of PathSpec — some Ok(false) block is directly control
              dependent on a switch whose scrutinee is computed from that field's value
  M-WIRE      that switch is also computed from the message attribute the specification pairs with the
              key (type→message_type, sender→sender, interface→interface, member→member,
              destination→destination, path/path_namespace→path, argN/argNpath/arg0namespace→body)
  M-ABSENT    every Option/Result obtained from the message (header getter, body deserialisation, slice
              get, TryFrom<&Value>, strip_prefix …) whose discriminant `matches` branches on has its
              None/Err edge leading only to Ok(false); header getters must be branched on or compared whole
  M-ARGTYPE   the Value→&str conversion `matches` uses for argN accepts exactly {Str}; the one for argNpath
              accepts ObjectPath (and at most Str besides)
  M-PREFIX    the PathNamespace payload and arg0namespace reach a prefix test (str::starts_with /
              strip_prefix) as the pattern
  M-BOUNDARY  a prefix test whose pattern is the bare rule value (not a value with a separator appended)
              is followed, on its success edge, by a further test computed from the remainder or from
              the same message string (the boundary test: exact match or next char is the separator)

Not decided: argNpath trailing-slash semantics (zbus compares for equality, DESIGN §7 O1); that the
comparisons are the right ones (e.g. `!=` vs `==`); well-known sender/destination (documented exception).
"""
from .. import mir
from .. import lib_strflow as sf
from .. import lib_matchrule as mr

META = {
    "technique": "field-coverage + value-flow/control-dependence rules on the MIR of MatchRule::matches",
    "level": ("Every MatchRule field (and each half of the argument pairs, each PathSpec variant) is shown to decide a "
              "branch into Ok(false) together with the matching message attribute; message-side absence/type mismatch "
              "leads to Ok(false); namespace keys use a prefix test that carries a boundary test. The correctness of the "
              "individual comparisons and argNpath prefix semantics are not decided."),
}

# D-Bus specification, "Match Rules" table: rule key -> message attribute consulted
WIRE = {
    "msg_type": ("message_type", "msg_type"),
    "sender": ("sender",),
    "interface": ("interface",),
    "member": ("member",),
    "destination": ("destination",),
    "path_spec": ("path",),
    "args": ("body",),
    "arg_paths": ("body",),
    "arg0ns": ("body",),
}
NAMESPACE_COMPONENTS = ("path_spec.PathNamespace", "arg0ns")
MSG_TYPES = ("zbus::message::Message", "zbus::message::header::Header", "zbus::message::header::PrimaryHeader")


STD_VARIANTS = {"core::option::Option": {"0": "None", "1": "Some"},
                "core::result::Result": {"0": "Ok", "1": "Err"}}


def std_switches(body, f, adt=None):
    """mir.discr_switches with the variants of core's Option / Result named (core ADTs are not in the facts)"""
    for sb, pl, a, arms, other in mir.discr_switches(body, f, adt):
        names = STD_VARIANTS.get(a)
        if names:
            arms = {names.get(k, k): v for k, v in arms.items()}
        yield sb, pl, a, arms, other


def ok_false_blocks(body):
    out = set()
    for b, i, pl, rv, ln in mir.assignments(body):
        if pl[0] == mir.RET and not pl[1] and rv[0] == "agg" and rv[1] == "adt" and rv[2] == "core::result::Result" and rv[3] == "Ok":
            k = mir.resolve_const(body, rv[4][0]) if rv[4] else None
            if k is not None and k.get("v") is False:
                out.add(b)
    return out


def short(c):
    n = c.fnargs or c.callee
    # drop generic argument lists
    out, depth = [], 0
    for ch in n:
        if ch == "<":
            depth += 1
        elif ch == ">":
            depth -= 1
        elif depth == 0:
            out.append(ch)
    parts = [p for p in "".join(out).split("::") if p]
    return "::".join(parts[-2:]) if len(parts) >= 2 else "".join(out)


def short_full(c):
    """callee name that keeps the Self type of trait impls (`<&str as TryFrom<&Value>>::try_from`)"""
    n = c.fnargs or c.callee
    if n.startswith("<"):
        return n.replace("'_", "").replace("<>", "")
    return short(c)


def run(ctx):
    ctx.explanation = ("R-FIELDS/R-FALL on MatchRule::matches: each rule field is read and decides, together with the "
                       "message attribute the spec pairs with it, a branch into Ok(false); message-side None/Err edges go to "
                       "Ok(false); namespace prefix tests carry a boundary test.")
    ctx.not_decided = "argNpath trailing-slash semantics; correctness of each comparison operator; well-known names."
    ctx.trusted.append("D-Bus specification, 'Match Rules' key table (transcribed in rules/C21.py WIRE)")
    f = ctx.facts("K1")
    fields = mr.rule_fields(ctx, f)
    m = ctx.one(f.find(name="matches", adt=mr.RULE, trait=""), "MatchRule::matches")
    acc = mr.accessors(f)
    reads = mr.field_reads(f, m, {1}, acc)
    fblocks = ok_false_blocks(m)
    ctx.floor("M-MISMATCH", "Ok(false) return sites in matches", len(fblocks), 1)
    rule_root_namespace(ctx, f, m)
    rule_arg_type(ctx, f, m)
    cdeps = {b: sf.control_deps(m, b) for b in fblocks}
    msg_t = sf.Taint(m, {2})

    # message getters by name
    getters = {}
    for c in mir.calls(m):
        if c.args and msg_t.touches(c.args[0]) and any(c.callee.startswith(t + "::") for t in MSG_TYPES):
            getters.setdefault(c.callee.rsplit("::", 1)[1], []).append(c)

    comp_taints = {}   # component name -> Taint
    presence_some = {}  # field -> Some-edge targets of its presence switch
    for name, ty in fields:
        rd = reads.get(name, [])
        where = "%s:%d" % (m.file, rd[0][1]) if rd else m.where
        ctx.ob("M-FIELDS", "read:" + name, bool(rd), "matches reads MatchRule.%s" % name if rd else
               "matches never reads MatchRule.%s: a rule constraining it matches everything" % name, where)
        if not rd:
            continue
        seeds = {r[0] for r in rd}
        whole = sf.Taint(m, seeds)
        for sb, pl, adt, arms, other in std_switches(m, f, "core::option::Option"):
            if pl[0] in seeds and not pl[1] and "Some" in arms:
                presence_some.setdefault(name, []).append(arms["Some"])
        comps = mr.components(f, m, name, ty, seeds)
        items = [(name, whole)]
        if comps:
            items = [(cn, sf.Taint(m, ls)) for cn, ls in sorted(comps.items())]
            en, variants = mr.payload_enum(f, ty)
            for v in variants:
                if "%s.%s" % (name, v) not in comps:
                    ctx.ob("M-MISMATCH", "mismatch:%s.%s" % (name, v), False,
                           "matches never takes the %s payload out of %s" % (v, name), where)
        for cn, t in items:
            comp_taints[cn] = t
            hits = []
            for fb in sorted(fblocks):
                for s in cdeps[fb]:
                    if any(l in t.comp for l in sf.switch_locals(m, s)):
                        hits.append((fb, s))
            ln = mir.term(m, hits[0][1])[5] if hits else rd[0][1]
            ctx.ob("M-MISMATCH", "mismatch:" + cn, bool(hits),
                   "a test computed from %s decides a return of Ok(false)" % cn if hits else
                   "no Ok(false) is controlled by a test computed from %s: its value cannot make a message not match" % cn,
                   "%s:%d" % (m.file, ln))
            # ---- M-WIRE
            want = WIRE.get(name)
            if want is None:
                ctx.ob("M-WIRE", "wire:" + cn, False, "field %s has no entry in the spec table of this rule (new key?)" % name, where)
                continue
            gc = [c for g in want for c in getters.get(g, [])]
            if not gc:
                ctx.ob("M-WIRE", "wire:" + cn, False, "matches never reads the message's %s" % "/".join(want), where)
                continue
            gt = sf.Taint(m, {c.dest[0] for c in gc})
            okw = any(any(l in gt.comp for l in sf.switch_locals(m, s)) for fb, s in hits)
            ctx.ob("M-WIRE", "wire:" + cn, okw,
                   "%s is compared with the message's %s" % (cn, "/".join(want)) if okw else
                   "the test on %s does not involve the message's %s" % (cn, "/".join(want)), "%s:%d" % (m.file, ln))

    # ---- M-ABSENT
    exits = set(mir.exits(m))
    seen_keys = {}
    switched_calls = set()
    n_abs = 0
    for sb, pl, adt, arms, other in std_switches(m, f):
        if adt not in ("core::option::Option", "core::result::Result") or pl[1]:
            continue
        d = mir.single_def(m, pl[0])
        if not d or d[0] != "call":
            continue
        c = d[1]
        if not any(msg_t.touches(a) for a in c.args):
            continue
        switched_calls.add(id(c.c))
        fail_name = "None" if adt.endswith("Option") else "Err"
        good_name = "Some" if adt.endswith("Option") else "Ok"
        if fail_name in arms:
            tgt = arms[fail_name]
        elif good_name in arms:
            tgt = other
        else:
            tgt = None
        ctxf = sorted({cn.split(".")[0] for cn, t in comp_taints.items() if c.dest[0] in t.comp} |
                      {fl for fl, tg in presence_some.items() if any(mir.block_dominates(m, x, c.b) for x in tg)})
        key = "absent:%s%s" % (short_full(c) if c.is_("try_from", "try_into") else short(c), "[%s]" % ",".join(ctxf) if ctxf else "")
        seen_keys[key] = seen_keys.get(key, 0) + 1
        if seen_keys[key] > 1:
            key += "#%d" % seen_keys[key]
        ok = tgt is not None and not (mir.reachable(m, [tgt], avoid=fblocks) & exits)
        n_abs += 1
        ctx.ob("M-ABSENT", key, ok,
               "%s of %s leads only to Ok(false)" % (fail_name, short(c)) if ok else
               "when %s yields %s the rule can still match (a path from that edge returns without Ok(false))" % (short(c), fail_name),
               c.where)
    ctx.floor("M-ABSENT", "message-side Option/Result branches in matches", n_abs, 3)
    # header getters returning Option must be branched on, or compared whole with rule data
    for g, cs in sorted(getters.items()):
        for c in cs:
            if not (c.c.get("destty") or "").startswith("core::option::Option<") or id(c.c) in switched_calls:
                continue
            t = sf.Taint(m, {c.dest[0]})
            cmpd = False
            for x in mir.calls(m):
                if x.is_("eq", "ne") and any(t.is_alias(a) for a in x.args):
                    others = [a for a in x.args if not t.is_alias(a)]
                    if any(any(l in ct.alias or l in ct.comp for l in mir.operand_locals(a)) for a in others for ct in comp_taints.values()):
                        cmpd = True
            ctx.ob("M-ABSENT", "absent:%s(whole)" % short(c), cmpd,
                   "Option from %s is compared as a whole with rule data (None differs from Some)" % short(c) if cmpd else
                   "Option from %s is neither branched on nor compared as a whole" % short(c), c.where)

    # ---- M-PREFIX / M-BOUNDARY
    prefix_calls = [c for c in mir.calls(m) if c.is_("starts_with", "strip_prefix") and "str" in c.callee and len(c.args) > 1]
    dynamic = [c for c in prefix_calls if mir.resolve_const(m, c.args[1]) is None and sf.str_consts(m, c.args[1]) is None]
    for cn in NAMESPACE_COMPONENTS:
        t = comp_taints.get(cn)
        if t is None:
            ctx.ob("M-PREFIX", "prefix:" + cn, False, "%s is not read/taken apart by matches" % cn, m.where)
            continue
        ps = [c for c in dynamic if t.touches(c.args[1])]
        ctx.ob("M-PREFIX", "prefix:" + cn, bool(ps),
               "%s is used as the pattern of a prefix test" % cn if ps else
               "%s never reaches a prefix test (starts_with/strip_prefix): namespace semantics impossible" % cn,
               ps[0].where if ps else m.where)
    bool_sw = {id(c.c): (blk, tt, ft) for blk, c, tt, ft, neg in mir.call_bool_switches(m)}
    for c in dynamic:
        owners = sorted(cn for cn, t in comp_taints.items() if t.touches(c.args[1]))
        if not owners:
            continue
        bare = [cn for cn in owners if comp_taints[cn].is_alias(c.args[1])]
        key = "boundary:" + "+".join(owners)
        if not bare:
            ctx.note("prefix test at %s uses a pattern computed from %s (separator presumably appended): no boundary test required" % (c.where, owners))
            continue
        succ = None
        if id(c.c) in bool_sw:
            succ = bool_sw[id(c.c)][1]
        else:
            for sb, pl, adt, arms, other in std_switches(m, f, "core::option::Option"):
                if pl[0] == c.dest[0] and not pl[1]:
                    succ = arms.get("Some", other if "None" in arms else None)
        if succ is None:
            ctx.ob("M-BOUNDARY", key, False, "result of the prefix test is not branched on in matches (shape not recognised)", c.where)
            continue
        hay = mir.root_local(m, _view_root(m, c.args[0]))
        rt = sf.Taint(m, {c.dest[0]})
        ht = sf.Taint(m, {hay}) if hay is not None else None
        found = None
        for sb, t in mir.switches(m):
            if not mir.block_dominates(m, succ, sb):
                continue
            ls = sf.switch_locals(m, sb)
            if any(l in rt.comp for l in ls) or (ht is not None and any(l in ht.comp for l in ls)):
                found = sb
                break
        ctx.ob("M-BOUNDARY", key, found is not None,
               "prefix test on the bare value of %s is followed by a boundary test on its success edge" % "+".join(owners)
               if found is not None else
               "prefix test on the bare value of %s decides alone (no test of the remainder / next character on its success edge): "
               "a value that merely starts with the same text is accepted, e.g. `/foobar` for `/foo`, `org.foobar` for `org.foo`" % "+".join(owners),
               c.where)


def rule_arg_type(ctx, f, m):
    """M-ARGTYPE (added after seeded change C21b): `argN='text'` selects STRING arguments only, and `matches`
    enforces that by letting `<&str as TryFrom<&Value>>` fail for anything else. The rule therefore reaches into
    that conversion: the set of Value variants it accepts must be exactly {Str} (the seed made it accept
    ObjectPath as a convenience). Same for the conversion used for argNpath: it must accept ObjectPath and
    nothing that is neither a string nor a path."""
    from . import C08
    want = {"&str": ({"Str"}, {"Str"}), "zvariant::object_path::ObjectPath": ({"ObjectPath"}, {"ObjectPath", "Str"})}
    n = 0
    for c in mir.calls(m):
        if not (c.is_("try_from", "try_into") and "TryFrom<&" in c.callee and "zvariant::value::Value" in c.callee):
            continue
        tb = f.bodies.get(c.callee)
        if tb is None:
            ctx.ob("M-ARGTYPE", "conversion-body:" + short_full(c), False, "body of the conversion not in the analysed facts", c.where)
            continue
        self_ty = C08.norm_type(tb.d.get("impl_self") or "")
        key = "&str" if self_ty in ("str", "&str") else self_ty
        n += 1
        sws = C08.value_switches(tb, f)
        acc = None
        if sws:
            acc = set()
            for sb, place, arms, other in sws:
                inc = {a[0] for a in C08.aggregates(tb, "zvariant::error::Error") if a[3][3] == "IncorrectType"}
                tab = C08.arm_table(tb, f, sb, arms, other)
                for v, tgt in tab.items():
                    if not (inc & mir.reachable(tb, [tgt])):
                        acc.add(v)
        must, may = want.get(key, (None, None))
        if must is None:
            ctx.ob("M-ARGTYPE", "conversion-known:" + key, False,
                   "matches converts a body argument with a conversion the rule has no specification for", c.where)
            continue
        ok = acc is not None and must <= acc <= may
        ctx.ob("M-ARGTYPE", "accepted-value-types:" + key, ok,
               "conversion to %s accepts exactly %s" % (key, sorted(acc)) if ok else
               "conversion to %s accepts %s; the match key may only select %s" % (key, sorted(acc) if acc is not None else "?", sorted(may)),
               tb.where)
    ctx.floor("M-ARGTYPE", "body-argument conversions in matches", n, 2)


def rule_root_namespace(ctx, f, m):
    """M-ROOT (added after seeded change C21): `path_namespace='/'` matches every path, but after stripping the prefix
    `/` the remainder of `/a/b` is `a/b`, which neither is empty nor starts with `/`. Whatever form the boundary test
    takes, the decision must therefore also look at the namespace value itself: a comparison with "/" (or a test that
    it ends with '/', or has length 1)."""
    seeds = set()
    for bi, i, pl, rv, ln in mir.assignments(m):
        for op in mir.rvalue_operands(rv):
            p_ = mir.op_place(op)
            if p_ and any(isinstance(x, list) and x[0] == "as" and x[1] == "PathNamespace" for x in p_[1]):
                seeds.add(pl[0])
    if not seeds:
        ctx.ob("M-ROOT", "namespace-payload", False, "the PathNamespace payload is never read in matches", m.where)
        return
    t = sf.Taint(m, seeds)
    found = None
    for c in mir.calls(m):
        name = c.callee.rsplit("::", 1)[-1]
        if name not in ("eq", "ne", "ends_with", "len", "is_empty", "trim_end_matches", "strip_suffix", "trim_matches"):
            continue
        touched = [a for a in c.args if t.touches(a)]
        if not touched:
            continue
        consts = []
        for a in c.args:
            o = mir.origin(m, a)
            if o[0] == "const":
                consts.append(o[1].get("v", o[1].get("pv")))
        if name in ("eq", "ne") and "/" in consts:
            found = c
        elif name in ("ends_with", "trim_end_matches", "strip_suffix", "trim_matches") and ("/" in consts):
            found = c
        elif name == "len":
            # len() == 1
            for sb, op, l, r, tt, ft, ln in mir.cmp_switches(m):
                for x, y in ((l, r), (r, l)):
                    ox = mir.origin(m, x)
                    k = mir.resolve_const(m, y)
                    if ox[0] == "call" and ox[1] is c and k is not None and k.get("v") == 1:
                        found = c
    ctx.ob("M-ROOT", "path_namespace-root-is-tested", found is not None,
           "the namespace value itself is tested for being the root (%s)" % found.callee.rsplit("::", 1)[-1] if found else
           "nothing tests whether the namespace is `/`: with the remainder-based boundary test `path_namespace='/'` matches only the root "
           "path itself instead of every path", found.where if found else m.where)


def _view_root(body, op):
    """operand behind views/reborrows: `&*deref(&x)` -> x"""
    for _ in range(8):
        o = mir.origin(body, op)
        if o[0] == "call" and sf.is_view_call(o[1]) and o[1].args:
            op = o[1].args[0]
            continue
        if o[0] in ("place", "ref"):
            d = mir.single_def(body, o[1][0])
            if d and d[0] == "call" and sf.is_view_call(d[1]) and d[1].args:
                op = d[1].args[0]
                continue
            return ["c", [o[1][0], []]]
        break
    return op
