"""C22 — A match rule's string form parses back to the same rule (DESIGN §5.C22).

Both directions are reduced to tables extracted from the MIR (K1) of `<MatchRule as Display>::fmt`,
its helper(s), `<MatchRule as TryFrom<&str>>::try_from` and the `Builder` methods:

  Display table : key pattern  -> MatchRule component whose value is written between the quotes
                  (`sender`, `path_spec.PathNamespace`, `args.1` …; `arg{args.0}` = key with the pair's index)
  parser table  : key pattern  -> Builder method called under that key's test -> component that method writes

  T-EMIT     every write Display performs has the shape  KEY='VALUE'  (one template, or a helper whose
             own writes are  key, "='", value, "'"); nothing else is written except the ',' separator
  T-KEYS     every (key -> component) of the Display table is in the parser table with the same component,
             and equals the D-Bus specification's key for that component
  T-FIELDS   every field of MatchRule is written by Display (a field left out is lost by to_string())
  T-ARGIDX   in the parser's `arg…` family the number is parsed from the text right after the tested prefix
             (slice start == length of the prefix constant)
  T-TYPES    the message-type names agree: Display's Type->string switch, the parser's string->Type arms
             and the specification's four names
  E-ESCAPE   a component whose Builder setter accepts arbitrary text (no rejecting branch computed from the
             value) must not be written verbatim between the quotes by Display (display:<comp>), and the
             parser must not hand the raw text between the quotes to that setter (parse:<comp>) — an
             escaping/unescaping computation has to sit in between. The specification's quoting is
             `'` … `'\\''` … `'`; whether an escaper implements it correctly is not decided.

Not decided: the parser's splitting on ',' and '=' (text grammar); validation performed by the name /
path types; PartialEq of rules whose args were inserted in different orders.
"""
import re
from .. import mir
from .. import lib_strflow as sf
from .. import lib_matchrule as mr

META = {
    "technique": "sibling switch/format-template tables (Display vs parser vs spec) + value-flow escaping rule",
    "level": ("Key names, their pairing with MatchRule components and the four message-type names are extracted from "
              "Display, from the parser and from the Builder setters and must agree with each other and with the "
              "D-Bus match-rule table; free-text components must pass an escaping computation on the way out and an "
              "unescaping one on the way in. The comma/equals splitting of the text and the correctness of an escaper "
              "are not decided."),
}

TYPE_ADT = "zbus::message::header::Type"
# D-Bus specification, "Match Rules": key -> what it constrains (as MatchRule component)
SPEC_KEYS = {
    "type": "msg_type", "sender": "sender", "interface": "interface", "member": "member",
    "path": "path_spec.Path", "path_namespace": "path_spec.PathNamespace", "destination": "destination",
    "arg{N}": "args.1", "arg{N}path": "arg_paths.1", "arg0namespace": "arg0ns",
}
SPEC_TYPES = {"signal": "Signal", "method_call": "MethodCall", "method_return": "MethodReturn", "error": "Error"}
SLICE_VIEWS = sf.VIEW_CALLS + ("index", "get_unchecked", "trim_matches")


def slice_view(c):
    return c.is_(*SLICE_VIEWS)


STD_VARIANTS = {"core::option::Option": {"0": "None", "1": "Some"}, "core::result::Result": {"0": "Ok", "1": "Err"}}


def std_switches(body, f, adt=None):
    for sb, pl, a, arms, other in mir.discr_switches(body, f, adt):
        names = STD_VARIANTS.get(a)
        if names:
            arms = {names.get(k, k): v for k, v in arms.items()}
        yield sb, pl, a, arms, other


# ----------------------------------------------------------------------------------- components of a body
class Comps:
    """component taints of MatchRule reads in one body (self = local 1)"""

    def __init__(self, f, body, fields, self_locals=(1,)):
        self.body = body
        self.t = {}
        self.field_of = {}
        self.presence = {}
        reads = mr.field_reads(f, body, set(self_locals))
        self.reads = reads
        for name, ty in fields:
            rd = reads.get(name)
            if not rd:
                continue
            seeds = {r[0] for r in rd}
            comps = mr.components(f, body, name, ty, seeds)
            if comps:
                for cn, ls in comps.items():
                    self.t[cn] = sf.Taint(body, ls)
                    self.field_of[cn] = name
            else:
                self.t[name] = sf.Taint(body, seeds)
                self.field_of[name] = name
            for sb, pl, adt, arms, other in std_switches(body, f, "core::option::Option"):
                if pl[0] in seeds and not pl[1] and "Some" in arms:
                    self.presence.setdefault(name, []).append(arms["Some"])

    def owner(self, op, block=None):
        """component an operand is an alias of (or, failing that, the single field whose `Some` region holds block)"""
        if op is not None and op[0] != "k":
            op = sf.through_tuple(self.body, op)
            hit = sorted(cn for cn, t in self.t.items() if t.is_alias(op))
            if len(hit) == 1:
                return hit[0], "alias"
            hit = sorted(cn for cn, t in self.t.items() if t.is_comp(op))
            if len(hit) == 1:
                return hit[0], "computed"
            if hit:
                return None, "ambiguous %s" % hit
        if block is not None:
            hit = sorted(fl for fl, tg in self.presence.items() if any(mir.block_dominates(self.body, x, block) for x in tg))
            if len(hit) == 1:
                return hit[0], "region"
        return None, "none"


# ----------------------------------------------------------------------------------- Display side
def sinks(body):
    """formatter writes of a body in dominance order: [(Call, kind, payload)]
       kind: 'lit' (str) | 'op' (operand written with write_str) | 'fmt' ((parts, argops)) | 'call' (callee id)"""
    out = []
    for c in mir.calls(body):
        if c.is_("write_str") and "Formatter" in c.callee and len(c.args) > 1:
            s = sf.str_consts(body, c.args[1])
            out.append((c, "lit", next(iter(s))) if s is not None and len(s) == 1 else (c, "op", c.args[1]))
        elif c.is_("write_char") and len(c.args) > 1:
            k = mir.resolve_const(body, c.args[1])
            out.append((c, "lit", k["v"]) if k is not None and isinstance(k.get("v"), str) else (c, "op", c.args[1]))
        elif c.is_("write_fmt") and len(c.args) > 1:
            o = mir.origin(body, c.args[1])
            an = sf.arguments_new(body, o[1]) if o[0] == "call" else None
            out.append((c, "fmt", an) if an is not None else (c, "op", c.args[1]))
        elif c.callee.startswith("zbus::match_rule::") and c.args and "Formatter" in (c.c.get("argtys") or [""])[0]:
            out.append((c, "call", c.callee))
    return out


def helper_shape(f, hid, depth=0):
    """Summary of a helper `fn(f: &mut Formatter, ..)`: list of 'lit:<s>' / 'param:<i>' items in write order
       (nested helpers inlined), or None if its writes are not totally ordered / not recognised."""
    h = f.byid(hid)
    if h is None or depth > 3:
        return None
    ss = sinks(h)
    # the writes of one helper must form a chain (straight-line code with `?` exits); conditional single
    # separator writes (`if !first { ',' }`) are kept as optional items
    items = []
    ordered = sorted(ss, key=lambda x: sum(1 for y in ss if mir.block_dominates(h, y[0].b, x[0].b)))
    pt = {p: sf.Taint(h, {p}) for p in range(1, h.d["argc"] + 1)}
    for c, kind, pay in ordered:
        if kind == "lit":
            items.append("lit:" + pay)
        elif kind == "op":
            ps = [p for p, t in pt.items() if t.is_alias(pay)]
            if len(ps) != 1:
                return None
            items.append("param:%d" % (ps[0] - 1))
        elif kind == "call":
            sub = helper_shape(f, pay, depth + 1)
            if sub is None:
                return None
            # map the callee's params through this call's arguments
            for it in sub:
                if it.startswith("param:"):
                    a = c.args[int(it[6:])]
                    ps = [p for p, t in pt.items() if t.is_alias(a)]
                    if len(ps) != 1:
                        return None
                    items.append("param:%d" % (ps[0] - 1))
                else:
                    items.append(it)
        else:
            return None
    return items


def tuple_pairs(body, kop, vop):
    """[(key string, value operand)] for a (key, value) pair of operands; when both are fields of one
    multi-def tuple local (`let (key, value) = match x { A(v) => ("a", v), B(v) => ("b", v) }`) the
    pairing is kept per definition."""
    ko, vo = mir.origin(body, kop), mir.origin(body, vop)

    def tup_field(o):
        if o[0] in ("place", "ref"):
            pj = [p for p in o[1][1] if p != "*"]
            if len(pj) == 1 and isinstance(pj[0], list) and pj[0][0] == "." and pj[0][3] == "tuple":
                return o[1][0], pj[0][1]
        return None
    vroot = vop
    for _ in range(6):
        # value may sit behind a view call: deref(&*value)
        if vo[0] == "call" and sf.is_view_call(vo[1]) and vo[1].args:
            vroot = vo[1].args[0]
            vo = mir.origin(body, vroot)
            continue
        if vo[0] in ("place", "ref") and not tup_field(vo):
            d = mir.single_def(body, vo[1][0])
            if d and d[0] == "assign" and d[4][0] == "use" and d[4][1][0] != "k" and not vo[1][1]:
                vroot = d[4][1]
                vo = mir.origin(body, vroot)
                continue
        break
    kf, vf = tup_field(ko), tup_field(vo)
    if kf and vf and kf[0] == vf[0]:
        out = []
        for d in mir.defs_of(body, kf[0]):
            if d[0] == "assign" and not d[3][1] and d[4][0] == "agg" and d[4][1] == "tuple":
                ks = sf.str_consts(body, d[4][4][kf[1]])
                if ks is None or len(ks) != 1:
                    return None
                out.append((next(iter(ks)), d[4][4][vf[1]], d[1]))
            else:
                return None
        return out
    ks = sf.str_consts(body, kop)
    if ks is None or len(ks) != 1:
        return None
    return [(next(iter(ks)), vop, None)]


KV_RE = re.compile(r"^(?P<key>[^='{}]*(?:\{\d+\}[^='{}]*)?)='\{(?P<val>\d+)\}'$")


def display_table(ctx, f, D, comps):
    """[(key pattern, component, how, value operand, Call)]"""
    table = []
    for c, kind, pay in sinks(D):
        if kind == "fmt":
            parts, ops = pay
            text = sf.template_text(parts)
            mm = KV_RE.match(text)
            if not mm:
                ctx.ob("T-EMIT", "emit:template:%s" % text, False, "Display writes `%s`, which is not KEY='VALUE'" % text, c.where)
                continue
            key = mm.group("key")
            ok = True
            for ph in re.findall(r"\{(\d+)\}", key):
                i = int(ph)
                op = ops[i][1] if i < len(ops) else None
                own, how = comps.owner(op) if op is not None else (None, "none")
                if own is None:
                    ok = False
                key = key.replace("{%s}" % ph, "{%s}" % own)
            vi = int(mm.group("val"))
            vop = ops[vi][1] if vi < len(ops) else None
            own, how = comps.owner(vop, c.b) if vop is not None else (None, "none")
            ctx.ob("T-EMIT", "emit:template:%s" % key, ok and own is not None,
                   "template `%s` writes %s between the quotes" % (text, own), c.where)
            if ok and own is not None:
                table.append((key, own, how, vop, c))
        elif kind == "call":
            shape = helper_shape(f, pay)
            hname = pay.rsplit("::", 1)[1]
            if shape is None:
                ctx.ob("T-EMIT", "emit:helper:" + hname, False, "writes of helper %s not recognised" % pay, c.where)
                continue
            core = [it for it in shape if it != "lit:,"]
            if not core:
                continue  # separator only
            if len(core) == 4 and core[0].startswith("param:") and core[1] == "lit:='" and core[2].startswith("param:") and core[3] == "lit:'":
                ki, vi = int(core[0][6:]), int(core[2][6:])
                prs = tuple_pairs(D, c.args[ki], c.args[vi])
                if prs is None:
                    ctx.ob("T-EMIT", "emit:helper:%s:key" % hname, False, "key passed to %s is not a constant" % hname, c.where)
                    continue
                for key, vop, defblock in prs:
                    own, how = comps.owner(vop, defblock if defblock is not None else c.b)
                    if own is None and defblock is None:
                        own, how = comps.owner(None, c.b)
                    ctx.ob("T-EMIT", "emit:%s" % key, own is not None, "`%s='…'` carries %s (%s)" % (key, own, how), c.where)
                    if own is not None:
                        table.append((key, own, how, vop, c))
            else:
                ctx.ob("T-EMIT", "emit:helper:" + hname, False, "helper %s writes %s, not key='value'" % (hname, shape), c.where)
        else:
            what = pay if kind == "lit" else "a non-constant"
            if kind == "lit" and pay == ",":
                continue
            ctx.ob("T-EMIT", "emit:raw:%s" % (pay if kind == "lit" else "operand"), False,
                   "Display writes %r outside a KEY='VALUE' component" % (what,), c.where)
    return table


# ----------------------------------------------------------------------------------- Builder side
def builder_component(f, fields, method_id):
    """component written by a Builder method: field touched (+ PathSpec variant constructor / `.1` of pair vectors)"""
    b = f.byid(method_id)
    if b is None:
        return None
    touched = set()
    for x in f.family(b):
        touched |= mr.fields_touched(x)
    if len(touched) != 1:
        return None
    fld = next(iter(touched))
    ty = dict(fields).get(fld, "")
    en, variants = mr.payload_enum(f, ty)
    if en:
        vs = set()
        for x in f.family(b):
            for c in mir.calls(x):
                for a in c.args:
                    k = mir.op_const(a)
                    if k and (k.get("fn") or "").startswith(en + "::"):
                        vs.add(k["fn"].rsplit("::", 1)[1])
            for bb, i, pl, rv, ln in mir.assignments(x):
                if rv[0] == "agg" and rv[1] == "adt" and rv[2] == en:
                    vs.add(rv[3])
        if len(vs) != 1:
            return None
        return "%s.%s" % (fld, next(iter(vs)))
    if ty.startswith("alloc::vec::Vec<("):
        return fld + ".1"
    return fld


def setter_validates(f, method_id):
    """True iff the setter has an Err return directly controlled by a test computed from a non-integer parameter"""
    b = f.byid(method_id)
    if b is None:
        return None
    params = [p for p in range(2, b.d["argc"] + 1) if b.locals[p][0] not in sf._WIDTH]
    t = sf.Taint(b, set(params))
    errs = set()
    for bb, i, pl, rv, ln in mir.assignments(b):
        if pl[0] == mir.RET and not pl[1] and rv[0] == "agg" and rv[1] == "adt" and rv[3] == "Err":
            errs.add(bb)
    for c in mir.calls(b):
        # `?` on a fallible conversion of the value (try_into) also rejects
        if c.is_("from_residual") and c.dest[0] == mir.RET:
            errs.add(c.b)
    for e in errs:
        for s in sf.control_deps(b, e):
            if any(l in t.comp for l in sf.switch_locals(b, s)):
                return True
    return False


# ----------------------------------------------------------------------------------- parser side
def parser_tables(ctx, f, P):
    """(keys: {pattern: (method id, Call)}, types: {string: variant}, argidx checks)"""
    keys, types = {}, {}
    bcalls = [c for c in mir.calls(P) if c.callee.startswith(mr.BUILDER + "::") and not c.is_("build", "new")]
    for blk, c, tt, ft, neg in mir.call_bool_switches(P):
        if c.is_("eq") and "str" in c.callee and len(c.args) > 1:
            s = sf.pattern_const(P, c)
            if s is None:
                ctx.ob("T-KEYS", "parser:unreadable-pattern", False, "string pattern of a parser arm could not be read", c.where)
                continue
            under = [x for x in bcalls if mir.block_dominates(P, tt, x.b)]
            meths = {x.callee for x in under}
            if len(meths) == 1:
                keys[s] = (under[0].callee, under[0])
                continue
            ags = [rv[3] for b, i, pl, rv, ln in mir.assignments(P)
                   if rv[0] == "agg" and rv[1] == "adt" and rv[2] == TYPE_ADT and mir.block_dominates(P, tt, b)]
            if len(set(ags)) == 1:
                types[s] = ags[0]
    # numbered family: starts_with(key, PREFIX) [&& find(key, INFIX)]
    idx_checks = []
    for blk, c, tt, ft, neg in mir.call_bool_switches(P):
        if not (c.is_("starts_with") and "str" in c.callee and len(c.args) > 1):
            continue
        ps = sf.str_consts(P, c.args[1])
        if ps is None or len(ps) != 1 or not next(iter(ps)).isalpha():
            continue
        prefix = next(iter(ps))
        under = [x for x in bcalls if mir.block_dominates(P, tt, x.b)]
        if not under:
            continue
        finds = []
        for fc in mir.calls(P):
            if fc.is_("find", "rfind", "strip_suffix", "ends_with") and "str" in fc.callee and mir.block_dominates(P, tt, fc.b) and len(fc.args) > 1:
                fs = sf.str_consts(P, fc.args[1])
                if fs is not None and len(fs) == 1:
                    for sb, pl, adt, arms, other in std_switches(P, f, "core::option::Option"):
                        if pl[0] == fc.dest[0] and not pl[1]:
                            finds.append((next(iter(fs)), arms.get("Some"), arms.get("None", other)))
                    for b2, c2, t2, f2, n2 in mir.call_bool_switches(P):
                        if c2 is fc or c2.c is fc.c:
                            finds.append((next(iter(fs)), t2, f2))
        for x in under:
            pat = prefix + "{N}"
            for infix, yes, no in finds:
                if yes is not None and mir.block_dominates(P, yes, x.b):
                    pat = prefix + "{N}" + infix
            if pat in keys and keys[pat][0] != x.callee:
                ctx.ob("T-KEYS", "parser:ambiguous:" + pat, False, "two setters under key pattern %s" % pat, x.where)
            keys[pat] = (x.callee, x)
            # the number: argument 1 of the setter <- parse(<slice of key>) ; slice start must be len(prefix)
            starts = []
            t = None
            for ic in mir.calls(P):
                if ic.is_("index") and "str" in ic.callee and len(ic.args) > 1:
                    ro = mir.origin(P, ic.args[1])
                    if ro[0] == "rv" and ro[1][0] == "agg" and "Range" in ro[1][2] and not ro[1][2].endswith(("RangeTo", "RangeFull", "RangeToInclusive")):
                        it = sf.Taint(P, {ic.dest[0]}, view=slice_view)
                        if len(x.args) > 2 and it.touches(x.args[1]):
                            k = mir.resolve_const(P, ro[1][4][0])
                            starts.append((k.get("v") if k else None, ic))
            idx_checks.append((pat, prefix, starts, x))
    return keys, types, idx_checks


def display_types(f, D):
    """{variant: string} from the switch on Type's discriminant in Display"""
    out = {}
    for sb, pl, adt, arms, other in mir.discr_switches(D, f, TYPE_ADT):
        for b, i, pl2, rv, ln in mir.assignments(D):
            if rv[0] not in ("use", "ref"):
                continue
            s = sf.str_consts(D, rv[1] if rv[0] == "use" else ["c", rv[2]])
            if s is None or len(s) != 1 or D.locals[pl2[0]][1] is None:
                continue
            for var, tgt in arms.items():
                if mir.block_dominates(D, tgt, b):
                    out.setdefault(var, set()).add(next(iter(s)))
    return out


def rule_arg_range(ctx, f):
    """ARG-RANGE (added after seeded change C22b): the D-Bus specification allows `arg0` .. `arg63` and
    `arg0path` .. `arg63path` only; a rule with index 64 formats to a string no bus accepts. Both setters guard the
    index with one comparison against a constant: the comparison is evaluated for every u8, the indices that escape
    the `InvalidMatchRule` edge must be exactly 0..=63, for `arg` and `arg_path` alike."""
    B = "zbus::match_rule::builder::Builder"
    want = set(range(64))
    OPS = {"Eq": lambda a, b: a == b, "Ne": lambda a, b: a != b, "Lt": lambda a, b: a < b, "Le": lambda a, b: a <= b,
           "Gt": lambda a, b: a > b, "Ge": lambda a, b: a >= b}
    for name in ("arg", "arg_path"):
        bodies = f.find(name=name, adt=B, trait="")
        ctx.need(bodies, "Builder::" + name, "ARG-RANGE")
        for b in bodies:
            idx = [i for i in range(1, b.d["argc"] + 1) if b.locals[i][0] == "u8"]
            if len(idx) != 1:
                ctx.ob("ARG-RANGE", "index-parameter:" + name, False, "no single u8 index parameter", b.where)
                continue
            der = mir.derives(b, {idx[0]}, through_calls=False)
            errs = {blk for blk, i, pl, rv, ln in mir.assignments(b)
                    if rv[0] == "agg" and rv[1] == "adt" and rv[2] == "zbus::error::Error" and rv[3] == "InvalidMatchRule"}
            found = None
            for sb, op, lhs, rhs, tt, ft, ln in mir.cmp_switches(b):
                kl, kr = mir.resolve_const(b, lhs), mir.resolve_const(b, rhs)
                ll, rl = mir.op_local(lhs) if lhs[0] != "k" else None, mir.op_local(rhs) if rhs[0] != "k" else None
                if kr is not None and ll in der and isinstance(kr.get("v"), int):
                    ev = lambda i, k=kr["v"], op=op: OPS[op](i, k)
                elif kl is not None and rl in der and isinstance(kl.get("v"), int):
                    ev = lambda i, k=kl["v"], op=op: OPS[op](k, i)
                else:
                    continue
                t_err = bool(errs & mir.reachable(b, [tt])) and not (errs & mir.reachable(b, [ft]))
                f_err = bool(errs & mir.reachable(b, [ft])) and not (errs & mir.reachable(b, [tt]))
                if not (t_err or f_err):
                    continue
                accepted = {i for i in range(256) if ev(i) != t_err}
                found = (accepted, ln)
                break
            if found is None:
                ctx.ob("ARG-RANGE", "index-guard:" + name, False,
                       "no comparison of the index with a constant guards the InvalidMatchRule edge", b.where)
                continue
            accepted, ln = found
            ok = accepted == want
            ctx.ob("ARG-RANGE", "accepted-indices:" + name, ok,
                   "Builder::%s accepts exactly the indices 0..=63" % name if ok else
                   "Builder::%s accepts the indices %s..=%s (%d values); the specification allows 0..=63" % (
                       name, min(accepted) if accepted else "-", max(accepted) if accepted else "-", len(accepted)),
                   "%s:%d" % (b.file, ln))


def rule_arg_unique(ctx, f):
    """ARG-UNIQUE (added after seeded change C22): Display writes every element of `args` / `arg_paths` under the key
    `arg{idx}`; the same key twice is not a rule the parser reads back to the same value. So the setters must keep the
    indices unique: every `insert`/`push` into the vector is dominated by a search for the index whose found-edge
    removes (or overwrites) the existing element."""
    B = "zbus::match_rule::builder::Builder"
    n = 0
    for name, field in (("arg", "args"), ("arg_path", "arg_paths")):
        for b in f.find(name=name, adt=B, trait=""):
            ins = []
            for c in mir.calls(b):
                if c.callee.rsplit("::", 1)[-1] in ("insert", "push") and "Vec" in c.callee and c.args:
                    o = mir.origin(b, c.args[0])
                    if o[0] in ("place", "ref") and field in mir.place_fields(o[1]):
                        ins.append(c)
            ctx.floor("ARG-UNIQUE", "insertions into MatchRule.%s in Builder::%s" % (field, name), len(ins), 1)
            searches = [c for c in mir.calls(b) if c.callee.rsplit("::", 1)[-1] in
                        ("binary_search_by", "binary_search_by_key", "binary_search", "position", "rposition", "find", "retain", "any")]
            removes = [c for c in mir.calls(b) if c.callee.rsplit("::", 1)[-1] in ("remove", "swap_remove", "retain", "drain") and "Vec" in c.callee]
            for c in ins:
                n += 1
                ok = False
                why = "no search for an existing element with the same index precedes the insertion"
                for sc in searches:
                    if not mir.block_dominates(b, sc.b, c.b):
                        continue
                    if sc.is_("retain"):
                        ok, why = True, "existing elements with that index are dropped by retain() first"
                        continue
                    # found edge: Ok / Some of the search result
                    for sb, place, adt, arms, other in mir.discr_switches(b, None):
                        so = mir.origin(b, ["c", [place[0], []]])
                        if not (so[0] == "call" and so[1] is sc):
                            continue
                        found = arms.get("0") if adt.endswith("Result") else arms.get("1")
                        if found is None:
                            continue
                        reg = mir.reachable(b, [found], avoid={c.b})
                        if any(r.b in reg for r in removes) and mir.block_dominates(b, sb, c.b):
                            ok, why = True, "an element found with the same index is removed before the insertion"
                ctx.ob("ARG-UNIQUE", "%s:replace-existing-index" % name, ok,
                       why if ok else why + ": setting arg%s twice keeps both, Display emits the key twice and the round trip changes the rule" % ("N" if name == "arg" else "Npath"),
                       c.where)
    return n


def run(ctx):
    ctx.explanation = ("Tables extracted from MIR: Display's key->component emissions (templates and the key/value helper), the "
                       "parser's key->Builder-setter arms, the setters' written components, and the message-type name tables; "
                       "they must agree pairwise and with the D-Bus match-rule key table. Free-text components must be escaped "
                       "by Display and unescaped by the parser.")
    ctx.not_decided = "tokenisation of the rule text on ',' / '='; correctness of an escaping function once present; name/path validators."
    ctx.trusted.append("D-Bus specification, 'Match Rules' key table and message type names (transcribed in rules/C22.py)")
    f = ctx.facts("K1")
    rule_arg_unique(ctx, f)
    rule_arg_range(ctx, f)
    fields = mr.rule_fields(ctx, f)
    D = ctx.one(f.find(name="fmt", adt=mr.RULE, trait="core::fmt::Display"), "<MatchRule as Display>::fmt")
    P = ctx.one([b for b in f.find(name="try_from", adt=mr.RULE, trait="core::convert::TryFrom")
                 if "TryFrom<&" in b.id and "str>" in b.id], "<MatchRule as TryFrom<&str>>::try_from")
    comps = Comps(f, D, fields)
    table = display_table(ctx, f, D, comps)
    ctx.floor("T-EMIT", "KEY='VALUE' emissions in Display", len(table), 1)

    # ---- T-FIELDS
    written = {comps.field_of.get(c, c.split(".")[0]) for k, c, how, vop, call in table}
    for name, ty in fields:
        ctx.ob("T-FIELDS", "written:" + name, name in written,
               "Display writes MatchRule.%s" % name if name in written else "Display never writes MatchRule.%s: lost in the string form" % name,
               D.where)

    # ---- parser
    pkeys, ptypes, idx_checks = parser_tables(ctx, f, P)
    ctx.floor("T-KEYS", "key arms recognised in the parser", len(pkeys), 1)
    setter_comp = {}
    for pat, (mid, call) in pkeys.items():
        if mid not in setter_comp:
            setter_comp[mid] = builder_component(f, fields, mid)

    def normkey(k):
        return re.sub(r"\{[^}]*\}", "{N}", k)

    for key, comp, how, vop, call in table:
        nk = normkey(key)
        # the index placeholder of a numbered key must be the `.0` of the same pair vector
        idx_ok = True
        for ph in re.findall(r"\{([^}]*)\}", key):
            idx_ok = idx_ok and ph == comp.rsplit(".", 1)[0] + ".0"
        ctx.ob("T-KEYS", "index:%s" % nk, idx_ok, "the number in `%s` is the index paired with the value (%s)" % (nk, key), call.where) \
            if "{" in key else None
        ent = pkeys.get(nk)
        if ent is None:
            ctx.ob("T-KEYS", "key:%s" % nk, False, "Display writes key `%s` but the parser has no arm for it" % nk, call.where)
        else:
            pc = setter_comp.get(ent[0])
            ok = pc == comp
            ctx.ob("T-KEYS", "key:%s" % nk, ok,
                   "`%s`: Display writes %s, parser calls %s which sets %s" % (nk, comp, ent[0].rsplit("::", 1)[1], pc), call.where)
        sc = SPEC_KEYS.get(nk)
        ctx.ob("T-KEYS", "spec:%s" % nk, sc == comp,
               "`%s` denotes %s in the specification; Display writes %s under it" % (nk, sc, comp), call.where)
    # parser keys that are not in the spec table / whose setter is not the spec's component
    for pat, (mid, call) in sorted(pkeys.items()):
        sc = SPEC_KEYS.get(pat)
        pc = setter_comp.get(mid)
        ctx.ob("T-KEYS", "parser-spec:%s" % pat, sc is not None and sc == pc,
               "parser key `%s` -> %s sets %s; specification: %s" % (pat, mid.rsplit("::", 1)[1], pc, sc), call.where)

    # ---- T-ARGIDX
    for pat, prefix, starts, call in idx_checks:
        ok = bool(starts) and all(s == len(prefix) for s, ic in starts)
        ctx.ob("T-ARGIDX", "index-start:%s" % pat, ok,
               "number of `%s` parsed from offset %s of the key; prefix `%s` has length %d" % (pat, [s for s, ic in starts], prefix, len(prefix)),
               call.where)

    # ---- T-TYPES
    dt = display_types(f, D)
    tadt = f.adts.get(TYPE_ADT)
    ctx.need([tadt] if tadt else [], "ADT " + TYPE_ADT)
    variants = [v["name"] for v in tadt["variants"]]
    for v in variants:
        ds = dt.get(v, set())
        ps = {s for s, var in ptypes.items() if var == v}
        spec = {s for s, var in SPEC_TYPES.items() if var == v}
        ok = len(ds) == 1 and ds == ps and ds == spec
        ctx.ob("T-TYPES", "type:" + v, ok, "Type::%s: Display %s, parser %s, specification %s" % (v, sorted(ds), sorted(ps), sorted(spec)), D.where)
    for s, var in sorted(ptypes.items()):
        if s not in SPEC_TYPES:
            ctx.ob("T-TYPES", "parser-extra:" + s, False, "parser accepts type name `%s` (-> %s) unknown to the specification" % (s, var), P.where)
    ctx.floor("T-TYPES", "type names recognised in the parser", len(ptypes), len(variants))

    # ---- E-ESCAPE
    free = {}
    for pat, (mid, call) in pkeys.items():
        comp = setter_comp.get(mid)
        if comp is None:
            continue
        cty = ""
        fld = comp.split(".")[0]
        ty = dict(fields).get(fld, "")
        if "zvariant::str::Str" in ty or "alloc::string::String" in ty or "&str" in ty:
            v = setter_validates(f, mid)
            if v is False:
                free[comp] = (mid, call, pat)
    for key, comp, how, vop, call in table:
        if comp in free:
            raw = how == "alias"
            ctx.ob("E-ESCAPE", "display:" + comp, not raw,
                   "%s accepts arbitrary text (setter %s never rejects it) and Display writes it verbatim between single quotes: "
                   "a value containing `'` or `,` does not parse back" % (comp, free[comp][0].rsplit("::", 1)[1]) if raw else
                   "%s passes through a computation before being written between the quotes" % comp, call.where)
    # views of the input also come out of the splitting iterator: everything the parser hands to a setter that is
    # still a sub-slice of the input (split / split_once / index / trim) counts as raw text
    raw_t = sf.Taint(P, {1}, view=lambda c: slice_view(c) or c.is_("split", "split_once", "rsplit_once", "next", "into_iter", "branch",
                                                                     "ok_or", "ok_or_else", "unwrap", "expect", "clone", "peekable", "strip_prefix",
                                                                     "strip_suffix", "splitn", "split_terminator"))
    for comp, (mid, call, pat) in sorted(free.items()):
        vop = call.args[-1]
        raw = raw_t.is_alias(vop)
        ctx.ob("E-ESCAPE", "parse:" + comp, not raw,
               "the text between the quotes of `%s` is handed to %s as a plain sub-slice of the input: no unescaping "
               "(and the input was already split on ',')" % (pat, mid.rsplit("::", 1)[1]) if raw else
               "value of `%s` is computed (unescaped) before %s" % (pat, mid.rsplit("::", 1)[1]), call.where)
    ctx.floor("E-ESCAPE", "free-text components of MatchRule", len(free), 0)
