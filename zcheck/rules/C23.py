"""C23 — D-Bus addresses round-trip through their string form (DESIGN §5.C23).

Rules (all over K1 facts of zbus::address):
  U-DEC      the bytes that decode_percents copies through unchanged are exactly the specification's
             optionally-escaped set  [-0-9A-Za-z_/.\\*]  (tabulated by evaluating the MIR of its
             classification on every char 0..=0x17f and samples above); '%' leads to decode_hex and
             everything else to the error return
  U-ENC      the bytes encode_percents writes unescaped (its `position` predicate is false) are a subset
             of the specification's set, and a subset of what decode_percents accepts (so every string
             it produces is decodable)
  U-HEX      decode_hex, evaluated on every char, returns Ok(n) exactly for the 22 hex digits with
             n = the digit's value, and the byte pushed for `%XY` is (hex(X) << 4) | hex(Y) with X the
             first char consumed
  P-PAIR     per transport type with a `from_options` parser: every option value its Display writes
             through encode_percents (key = the literal `key=` written just before, by dominance) is read
             back by from_options under the same key, and the argument of a decode_percents call traces
             back (through conversions, `?`, tuple packing — field-sensitively —, or as the receiver of an
             Option::map-like call whose closure / fn item is the decoder) to that very HashMap::get;
             conversely every key from_options decodes is written through encode_percents
  P-KEYS     every `key=` its Display writes is a key that from_options consults (HashMap::get /
             contains_key with that constant, or the same `argv{N}` template); numbered keys are counted
             from the same first number in steps of one on both sides (Display: K + enumerate() position,
             from_options: counter initialised to K); the same for the keys Address::fmt writes itself (guid)
             against Address::from_str
  P-TRANSPORT the `name:` prefix each transport's Display writes is the string Transport::from_options dispatches
             to that same type's from_options (tcp / nonce-tcp -> Tcp, unix -> Unix, unixexec -> Unixexec)
  P-ENUM     field-less enums of the module with both Display and FromStr (TcpTransportFamily): the text Display
             writes for a variant is mapped back to that variant by FromStr
  P-VARIANT  data-carrying option enums (UnixSocket): the variant Display writes under `key=` is the variant
             from_options builds from the value of get("key")

Not decided: the winnow grammar splitting `transport:key=value,...`; the LOOKUP table inside
encode_percents (the extractor does not evaluate `&str` const items); that the *decoded* bytes rather
than the raw text end up in the constructed value (only that the value reaches the decoder);
cfg(windows/macos) transports (not compiled in K1); `Tcp::bind`, which from_options refuses outright,
is reported by P-PAIR as never decoded.
"""
import re
from .. import mir
from .. import lib_strflow as sf

META = {
    "technique": "MIR evaluation of the character-class predicates + value-flow pairing of option keys",
    "level": ("The unreserved sets of decode_percents / encode_percents and the hex-digit table are tabulated "
              "exhaustively from the MIR and compared with the D-Bus specification; per transport every "
              "percent-encoded option key written by Display must be read and percent-decoded by from_options "
              "and vice versa. Does not decide the address grammar (winnow combinators), the LOOKUP escape table, "
              "nor platform-specific transports outside K1."),
}

MOD = "zbus::address::transport"
SPEC_UNRESERVED = set(b"-0123456789ABCDEFGHIJKLMNOPQRSTUVWXYZabcdefghijklmnopqrstuvwxyz_/.\\*")
DOMAIN = list(range(0, 0x180)) + [0x7FF, 0x800, 0xFFFF, 0x10000, 0x10FFFF]
KEY_RE = re.compile(r"(?:^|[:,])([A-Za-z0-9_]+(?:\{N\})?)=$")
ANYKEY_RE = re.compile(r"(?:^|[:,])([A-Za-z0-9_]+(?:\{N\})?)=")


def norm(text):
    """template text with every placeholder spelled {N}"""
    return re.sub(r"\{\d+\}", "{N}", text)


def show(s):
    return "".join(chr(c) if 32 < c < 127 else "\\x%02x" % c for c in sorted(s))


# ----------------------------------------------------------------------------------- unreserved sets
def decode_classes(ctx, f, dec):
    """{v: 'copy' | 'percent' | 'reject' | other} for decode_percents"""
    # the char under classification: the payload of the Option<char> returned by Chars::next in the loop head
    nexts = [c for c in mir.calls(dec) if c.is_("next") and "Chars" in c.callee]
    ctx.need(nexts, "Chars::next in decode_percents")
    start = None
    for b, i, pl, rv, ln in mir.assignments(dec):
        if rv[0] == "use" and rv[1][0] != "k" and not pl[1]:
            src = rv[1][1]
            if any(isinstance(p, list) and p[0] == "as" and p[1] == "Some" for p in src[1]) and dec.locals[pl[0]][0] == "char":
                d = mir.single_def(dec, src[0])
                if d and d[0] == "call" and d[1].is_("next") and "Chars" in d[1].callee:
                    start = (b, i, pl[0])
                    break
    ctx.need([start] if start else [], "binding of the current char in decode_percents")
    b0, i0, cl = start
    out = {}
    for v in DOMAIN:
        it = sf.Interp(dec, {cl: v})
        try:
            r = it.run(b0, i0 + 1)
        except sf.Unknown as e:
            out[v] = "unknown:%s" % e
            continue
        if r[0] == "call":
            c = r[1]
            if c.is_("push") and "Vec" in c.callee:
                a = it.op(c.args[1])
                out[v] = "copy" if a == (v & 0xFF) and v < 0x100 else "push-other"
            elif c.is_("next") and "Chars" in c.callee:
                out[v] = "percent"
            elif c.is_("to_owned", "to_string", "into", "from", "format"):
                out[v] = "reject"
            else:
                out[v] = "call:" + c.callee
        else:
            out[v] = r[0]
    return out


def encode_raw_set(ctx, f, enc):
    """bytes for which the closure given to Iterator::position in encode_percents is false"""
    pos = [c for c in mir.calls(enc) if c.is_("position")]
    ctx.need(pos, "Iterator::position call in encode_percents")
    cbs = []
    for c in pos:
        cbs += sf.closure_operands(enc, c, f)
    cb = ctx.one(cbs, "closure given to position() in encode_percents")
    raw, bad = set(), []
    for v in range(256):
        it = sf.Interp(cb, {2: sf._Ref(v)})
        try:
            r = it.run(0)
        except sf.Unknown as e:
            bad.append(v)
            continue
        if r[0] == "ret" and r[1] in (0, 1):
            if r[1] == 0:
                raw.add(v)
        else:
            bad.append(v)
    return raw, bad, cb


def check_sets(ctx, f):
    dec = ctx.one(f.find(name="decode_percents", path_contains=MOD + "::decode_percents", kind="Fn"), "decode_percents")
    enc = ctx.one(f.find(name="encode_percents", path_contains=MOD + "::encode_percents", kind="Fn"), "encode_percents")
    cls = decode_classes(ctx, f, dec)
    copy = {v for v, k in cls.items() if k == "copy"}
    odd = {v: k for v, k in cls.items() if k not in ("copy", "percent", "reject")}
    ctx.ob("U-DEC", "classification-total", not odd,
           "every char is copied, starts a %%-sequence or is rejected" if not odd else "unclassified chars: %s" % dict(list(odd.items())[:5]),
           dec.where)
    ctx.ob("U-DEC", "copy-set=spec", copy == SPEC_UNRESERVED,
           "decode_percents copies [%s]; spec [%s]; missing [%s] extra [%s]" % (
               show(copy), show(SPEC_UNRESERVED), show(SPEC_UNRESERVED - copy), show(copy - SPEC_UNRESERVED)), dec.where)
    pct = {v for v, k in cls.items() if k == "percent"}
    ctx.ob("U-DEC", "percent-introducer", pct == {0x25}, "chars that start an escape: [%s]" % show(pct), dec.where)
    raw, bad, cb = encode_raw_set(ctx, f, enc)
    ctx.ob("U-ENC", "predicate-total", not bad, "position() predicate evaluated on all 256 bytes" if not bad else
           "predicate not evaluable for bytes %s" % bad[:8], cb.where)
    ctx.ob("U-ENC", "raw-subset-of-spec", raw <= SPEC_UNRESERVED and len(raw) > 0,
           "encode_percents leaves [%s] unescaped; outside the spec set: [%s]" % (show(raw), show(raw - SPEC_UNRESERVED)), cb.where)
    ctx.ob("U-ENC", "raw-subset-of-decoder", raw <= copy,
           "bytes written raw but not accepted raw by decode_percents: [%s]" % show(raw - copy), cb.where)
    # the raw prefix really is what position() delimits: from_utf8_unchecked(&value[..pos]) is only sound for ASCII
    ctx.ob("U-ENC", "raw-is-ascii", all(v < 0x80 for v in raw), "unescaped bytes are ASCII (from_utf8_unchecked on the raw run)", cb.where)

    # ---- hex
    hx = ctx.one(f.find(name="decode_hex", path_contains=MOD + "::decode_hex", kind="Fn"), "decode_hex")
    wrong = []
    for v in DOMAIN:
        it = sf.Interp(hx, {1: v})
        try:
            r = it.run(0)
        except sf.Unknown as e:
            wrong.append((v, "unknown %s" % e))
            continue
        want = int(chr(v), 16) if v < 128 and chr(v) in "0123456789abcdefABCDEF" else None
        got = None
        if r[0] == "ret" and isinstance(r[1], tuple) and r[1][0] == "adt" and r[1][2] == "Ok":
            got = r[1][3][0]
        elif r[0] == "panic":
            got = "panic"
        if got != want:
            wrong.append((v, got))
    ctx.ob("U-HEX", "digit-table", not wrong, "decode_hex maps the 22 hex digits to their values and rejects the rest" if not wrong
           else "decode_hex wrong for %s" % [(chr(v) if 32 < v < 127 else hex(v), g) for v, g in wrong[:6]], hx.where)
    # combination (hi << 4) | lo
    hexcalls = [c for c in mir.calls(dec) if c.callee == hx.id]
    ctx.floor("U-HEX", "decode_hex calls in decode_percents", len(hexcalls), 2)
    pushes = [c for c in mir.calls(dec) if c.is_("push") and "Vec" in c.callee]
    found = False
    for p in pushes:
        o = mir.origin(dec, p.args[1])
        if o[0] != "rv" or o[1][0] != "bin" or o[1][1] not in ("BitOr", "Add", "BitXor"):
            continue
        found = True
        sides = []
        for opnd in (o[1][2], o[1][3]):
            oo = mir.origin(dec, opnd)
            sh = 0
            if oo[0] == "rv" and oo[1][0] == "bin" and oo[1][1] in ("Shl", "ShlUnchecked", "Mul"):
                k = mir.resolve_const(dec, oo[1][3])
                kv = k.get("v") if k else None
                sh = kv if oo[1][1] != "Mul" else {16: 4}.get(kv, -1)
                opnd = oo[1][2]
            # which decode_hex call does it come from: backward closure over single-def temporaries
            src = _hex_source(dec, opnd, hexcalls)
            sides.append((sh, src))
        sides.sort(key=lambda x: -(x[0] or 0))
        ok = (len(sides) == 2 and sides[0][0] == 4 and sides[1][0] == 0 and sides[0][1] is not None and sides[1][1] is not None
              and sides[0][1] is not sides[1][1] and mir.block_dominates(dec, sides[0][1].b, sides[1][1].b))
        ctx.ob("U-HEX", "nibble-order", ok,
               "escaped byte = (first hex << 4) | second hex" if ok else "escaped byte combination is %s" % [(s, c and c.line) for s, c in sides],
               p.where)
    ctx.ob("U-HEX", "combination-present", found, "a pushed byte is built from two decode_hex results", dec.where)
    return dec, enc


def _hex_source(body, op, hexcalls):
    seen = set()
    work = [l for l in mir.operand_locals(op)]
    dests = {c.dest[0]: c for c in hexcalls}
    while work:
        l = work.pop()
        if l in seen:
            continue
        seen.add(l)
        if l in dests:
            return dests[l]
        for d in mir.defs_of(body, l):
            if d[0] == "assign":
                for o in mir.rvalue_operands(d[4]):
                    work.extend(mir.operand_locals(o))
            elif d[0] == "call" and d[1].is_("branch", "unwrap", "expect", "from", "into"):
                for a in d[1].args:
                    work.extend(mir.operand_locals(a))
    return None


# ----------------------------------------------------------------------------------- key pairing
def formatter_writes(body):
    """[(Call, literal text with {i} placeholders, parts)] for Formatter::write_str(const) / write_fmt(template)"""
    out = []
    for c in mir.calls(body):
        if c.is_("write_str") and "fmt::Formatter" in c.callee and len(c.args) > 1:
            s = sf.str_consts(body, c.args[1])
            if s is not None and len(s) == 1:
                out.append((c, next(iter(s))))
        elif c.is_("write_fmt") and len(c.args) > 1:
            o = mir.origin(body, c.args[1])
            if o[0] == "call":
                an = sf.arguments_new(body, o[1])
                if an is not None:
                    out.append((c, norm(sf.template_text(an[0]))))
                elif o[1].is_("from_str", "new_const") and o[1].args:
                    s = sf.str_consts(body, o[1].args[0])
                    if s is not None and len(s) == 1:
                        out.append((c, next(iter(s))))
    return out


def encoders(f, enc):
    """encode_percents and workspace functions that forward one of their own parameters to an encoder"""
    enc_ids = {enc.id: 1}  # id -> index of the bytes parameter among call args
    changed = True
    while changed:
        changed = False
        for b in f.all_bodies("zbus"):
            if b.id in enc_ids or not b.id.startswith(("zbus::address", "<zbus::address")) or b.kind not in ("Fn", "AssocFn"):
                continue
            for c in mir.calls(b):
                if c.callee in enc_ids:
                    ai = enc_ids[c.callee]
                    t = sf.Taint(b, set(range(1, b.d["argc"] + 1)))
                    if ai < len(c.args) and t.is_alias(c.args[ai]) and b.d.get("impl_trait") is None:
                        # which parameter
                        for p in range(1, b.d["argc"] + 1):
                            if sf.Taint(b, {p}).is_alias(c.args[ai]):
                                enc_ids[b.id] = p - 1
                                changed = True
                                break
                if b.id in enc_ids:
                    break
    return enc_ids


def display_closure(f, root):
    """Display::fmt bodies reached from `root` through `{}` arguments of workspace address types"""
    seen = {}
    work = [root]
    while work:
        b = work.pop()
        if b.id in seen:
            continue
        seen[b.id] = b
        for c in mir.calls(b):
            tgt = None
            if c.is_("new_display") and "fmt::rt::Argument" in c.callee:
                g = c.c.get("gargs") or []
                ty = g[-1] if g else ""
                tgt = ty.lstrip("&").strip()
            elif c.declared == "core::fmt::Display::fmt" or c.callee.endswith("as core::fmt::Display>::fmt"):
                if c.c.get("res"):
                    nb = f.byid(c.c["res"])
                    if nb is not None:
                        work.append(nb)
                continue
            if tgt:
                for nb in f.find(name="fmt", trait="core::fmt::Display"):
                    if (nb.d.get("impl_adt") or "") == tgt.split("<")[0] and tgt.startswith("zbus::address"):
                        work.append(nb)
    return list(seen.values())


def key_of_get(body, c):
    """key (with {0} for a formatted index) passed to HashMap::get / contains_key"""
    if len(c.args) < 2:
        return None
    s = sf.str_consts(body, c.args[1])
    if s is not None and len(s) == 1:
        return next(iter(s))
    # format!("argv{n}").as_str()
    op = c.args[1]
    for _ in range(8):
        o = mir.origin(body, op)
        if o[0] == "call":
            cc = o[1]
            an = sf.arguments_new(body, cc)
            if an is not None:
                return norm(sf.template_text(an[0]))
            if cc.args:
                op = cc.args[0]
                continue
        elif o[0] in ("place", "ref"):
            d = mir.single_def(body, o[1][0])
            if d and d[0] == "call" and d[1].args:
                an = sf.arguments_new(body, d[1])
                if an is not None:
                    return norm(sf.template_text(an[0]))
                op = d[1].args[0]
                continue
        break
    return None


def decoded_keys(f, body, dec_id):
    """{key: (lookup Call, decoded?, 'get'|'contains_key')} for every HashMap lookup in a from_options body.
    `decoded` = the value looked up under that key is what a decode_percents call receives; the key is found
    by tracing the decoder's argument backwards (field-sensitively through tuple packing, conversions, `?`)."""
    out = {}
    for c in mir.calls(body):
        if not ("HashMap" in c.callee and c.is_("get", "contains_key", "get_key_value", "remove")):
            continue
        key = key_of_get(body, c)
        if key is None:
            out["?" + str(len(out))] = (c, False, "key not a constant")
            continue
        kind = "get" if c.is_("get", "get_key_value", "remove") else "contains_key"
        prev = out.get(key)
        if prev is None or (prev[2] == "contains_key" and kind == "get"):
            out[key] = (c, False, kind)
    dec_keys = set()
    for x in mir.calls(body):
        fed = None
        if x.callee == dec_id and x.args:
            fed = x.args[0]
        else:
            for cb in sf.closure_operands(body, x, f):
                ct = sf.Taint(cb, set(range(2, cb.d["argc"] + 1)))
                if any(y.callee == dec_id and y.args and ct.touches(y.args[0]) for y in mir.calls(cb)):
                    fed = x.args[0]
            for a in x.args[1:]:
                k = mir.op_const(a)
                if k and k.get("fn") == dec_id:
                    fed = x.args[0]
        if fed is not None:
            dec_keys.add(trace_key(body, fed))
    for key in list(out):
        if key in dec_keys and out[key][2] == "get":
            out[key] = (out[key][0], True, "get")
    return out


# ----------------------------------------------------------------------------------- numbered keys
def _addk(body, l):
    """local l == x + K (checked add then .0): -> (x local, K) else None"""
    d = mir.single_def(body, l)
    if d and d[0] == "assign" and d[4][0] == "use" and d[4][1][0] != "k":
        src = d[4][1][1]
        if len(src[1]) == 1 and isinstance(src[1][0], list) and src[1][0][0] == "." and src[1][0][1] == 0:
            dd = mir.single_def(body, src[0])
            if dd and dd[0] == "assign" and dd[4][0] == "bin" and dd[4][1] in ("AddWithOverflow", "Add"):
                k = mir.resolve_const(body, dd[4][3])
                x = mir.op_local(dd[4][2])
                if k is not None and isinstance(k.get("v"), int) and x is not None:
                    return x, k["v"]
        elif not src[1]:
            return _addk(body, src[0])
    if d and d[0] == "assign" and d[4][0] == "bin" and d[4][1] == "Add":
        k = mir.resolve_const(body, d[4][3])
        x = mir.op_local(d[4][2])
        if k is not None and isinstance(k.get("v"), int) and x is not None:
            return x, k["v"]
    return None


def index_shape(body, op):
    """How the number formatted into a `key{N}` template evolves:
       ('enumerate', K)        K + position in an Iterator::enumerate()
       ('counter', init, step) a local initialised to a constant and advanced by a constant
       None                    not recognised"""
    o = mir.origin(body, op)
    for _ in range(4):
        # look through the `args = (&a, &b)` tuple that format_args! builds
        if o[0] in ("ref", "place") and o[1][1] and isinstance(o[1][1][0], list) and o[1][1][0][0] == ".":
            d = mir.single_def(body, o[1][0])
            if d and d[0] == "assign" and d[4][0] == "agg" and d[4][1] == "tuple":
                elem = d[4][4][o[1][1][0][1]]
                if elem[0] != "k":
                    o = mir.origin(body, [elem[0], [elem[1][0], list(elem[1][1]) + list(o[1][1][1:])]])
                    continue
        break
    if o[0] not in ("ref", "place"):
        return None
    l = o[1][0]
    k = 0
    ak = None
    pj = o[1][1]
    if len(pj) == 1 and isinstance(pj[0], list) and pj[0][0] == "." and pj[0][1] == 0:
        dd = mir.single_def(body, l)
        if dd and dd[0] == "assign" and dd[4][0] == "bin" and dd[4][1] == "AddWithOverflow":
            kk = mir.resolve_const(body, dd[4][3])
            x = mir.op_local(dd[4][2])
            if kk is not None and isinstance(kk.get("v"), int) and x is not None:
                ak = (x, kk["v"])
        if ak is None:
            return None
    elif pj:
        return None
    else:
        ak = _addk(body, l)
    if ak is not None:
        l, k = ak
    l = mir.root_local(body, ["c", [l, []]])
    defs = mir.defs_of(body, l)
    # enumerate payload: single def `l = (_x as Some).0.0` with _x <- Enumerate::next
    if len(defs) == 1 and defs[0][0] == "assign" and defs[0][4][0] == "use" and defs[0][4][1][0] != "k":
        src = defs[0][4][1][1]
        d = mir.single_def(body, src[0])
        fields = [p[1] for p in src[1] if isinstance(p, list) and p[0] == "."]
        if d and d[0] == "call" and d[1].is_("next") and "Enumerate" in d[1].callee and fields[-1:] == [0]:
            return ("enumerate", k)
    # counter: one constant init, other defs are l = l + S
    init, steps = [], []
    for d in defs:
        if d[0] != "assign" or d[3][1]:
            return None
        kk = mir.resolve_const(body, d[4][1]) if d[4][0] == "use" else None
        if kk is not None and isinstance(kk.get("v"), int):
            init.append(kk["v"])
            continue
        if d[4][0] == "use" and d[4][1][0] != "k":
            src = d[4][1][1]
            dd = mir.single_def(body, src[0])
            if dd and dd[0] == "assign" and dd[4][0] == "bin" and dd[4][1] in ("AddWithOverflow", "Add") \
                    and mir.op_local(dd[4][2]) == l:
                ks = mir.resolve_const(body, dd[4][3])
                if ks is not None and isinstance(ks.get("v"), int):
                    steps.append(ks["v"])
                    continue
        return None
    if len(init) == 1 and steps and k == 0:
        return ("counter", init[0], steps[0] if len(set(steps)) == 1 else None)
    return None


def template_index_ops(body, key):
    """operands formatted into the `{N}` of templates whose key part equals `key`"""
    out = []
    for c in mir.calls(body):
        an = sf.arguments_new(body, c)
        if an is None:
            continue
        text = norm(sf.template_text(an[0]))
        if key not in [m.group(1) for m in ANYKEY_RE.finditer(text)] and text != key:
            continue
        args = [p[1] for p in an[0] if p[0] == "arg"]
        if len(args) == 1 and args[0] < len(an[1]) and an[1][args[0]][1] is not None:
            out.append((c, an[1][args[0]][1]))
    return out


def trace_key(body, op):
    """option key whose HashMap::get result an operand was built from (through conversions, `?`, tuple packing)"""
    for _ in range(16):
        o = mir.origin(body, op)
        if o[0] == "call":
            c = o[1]
            if "HashMap" in c.callee and c.is_("get", "remove", "get_key_value"):
                return key_of_get(body, c)
            if not c.args:
                return None
            op = c.args[0]
            continue
        if o[0] in ("place", "ref"):
            l, proj = o[1]
            d = mir.single_def(body, l)
            if d is None:
                return None
            if d[0] == "call":
                c = d[1]
                if "HashMap" in c.callee and c.is_("get", "remove", "get_key_value"):
                    return key_of_get(body, c)
                if not c.args:
                    return None
                op = c.args[0]
                continue
            rv = d[4]
            if rv[0] == "agg" and rv[1] == "tuple" and proj and isinstance(proj[0], list) and proj[0][0] == ".":
                op = rv[4][proj[0][1]]
                continue
            if rv[0] == "use" and rv[1][0] != "k":
                op = ["c", [rv[1][1][0], list(rv[1][1][1])]]
                continue
        return None
    return None


def check_pairs(ctx, f, dec, enc):
    enc_ids = encoders(f, enc)
    parsers = [b for b in f.find(name="from_options", trait="") if b.id.startswith(MOD) and b.d.get("impl_adt")
               and b.d["impl_adt"] != MOD + "::Transport"]
    ctx.floor("P-PAIR", "transport types with from_options", len(parsers), 2)
    n_enc = 0
    for p in sorted(parsers, key=lambda b: b.id):
        adt = p.d["impl_adt"]
        short = adt.rsplit("::", 1)[1]
        disp = f.find(name="fmt", adt=adt, trait="core::fmt::Display")
        d0 = ctx.one(disp, "Display for " + adt)
        bodies = display_closure(f, d0)
        # encoded keys
        enc_keys = {}
        all_keys = {}
        for b in bodies:
            ws = formatter_writes(b)
            for w, text in ws:
                for m in ANYKEY_RE.finditer(text):
                    all_keys.setdefault(m.group(1), w)
            for c in mir.calls(b):
                if c.callee not in enc_ids:
                    continue
                n_enc += 1
                cands = [(w, text) for w, text in ws if mir.block_dominates(b, w.b, c.b) and w.b != c.b]
                best = None
                for w, text in cands:
                    if all(mir.block_dominates(b, w2.b, w.b) for w2, _ in cands):
                        best = (w, text)
                m = KEY_RE.search(best[1]) if best else None
                if m is None:
                    ctx.ob("P-PAIR", "%s:encoded-value-without-key@%s" % (short, b.id), False,
                           "an encode_percents call is not preceded by a literal `key=` (nearest literal: %r)" % (best and best[1],), c.where)
                    continue
                enc_keys.setdefault(m.group(1), c)
        got = decoded_keys(f, p, dec.id)
        for key, c in sorted(enc_keys.items()):
            ent = got.get(key)
            if ent is None:
                ok, why = False, "written percent-encoded by Display but never read by %s::from_options" % short
            elif ent[2] == "contains_key":
                ok, why = False, "written percent-encoded by Display; from_options only tests its presence and never reads/decodes it"
            else:
                ok = ent[1]
                why = ("value read by from_options flows into decode_percents" if ok else
                       "written percent-encoded by Display but from_options uses the raw text (no decode_percents)")
            ctx.ob("P-PAIR", "%s:%s:encoded-then-decoded" % (short, key), ok, why, c.where)
        for key, ent in sorted(got.items()):
            if ent[1]:
                ok = key in enc_keys
                ctx.ob("P-PAIR", "%s:%s:decoded-then-encoded" % (short, key), ok,
                       "percent-decoded by from_options and written through encode_percents by Display" if ok else
                       "percent-decoded by from_options but Display writes it without encode_percents", ent[0].where)
            if key.startswith("?"):
                ctx.ob("P-KEYS", "%s:non-constant-key" % short, False, "option key is not a constant/template", ent[0].where)
        for key, w in sorted(all_keys.items()):
            ctx.ob("P-KEYS", "%s:%s:written-key-is-parsed" % (short, key), key in got,
                   "Display writes `%s=`; from_options consults it" % key if key in got else
                   "Display writes `%s=` but from_options never looks the key up" % key, w.where)
        ctx.floor("P-KEYS", "keys written by Display for " + short, len(all_keys), 1)
        # numbered keys: both sides must count from the same base, one by one
        for key in sorted(k for k in all_keys if "{N}" in k):
            dsh = [index_shape(b, op) for b in bodies for c, op in template_index_ops(b, key)]
            psh = [index_shape(p, op) for c, op in template_index_ops(p, key)]
            ok = len(dsh) == 1 and len(psh) == 1 and dsh[0] is not None and psh[0] is not None
            first_d = first_p = None
            if ok:
                first_d = dsh[0][1]
                first_p = psh[0][1]
                step_ok = (dsh[0][0] == "enumerate" or dsh[0][2] == 1) and (psh[0][0] == "enumerate" or psh[0][2] == 1)
                ok = first_d == first_p and step_ok
            ctx.ob("P-KEYS", "%s:%s:same-numbering" % (short, key), ok,
                   "Display numbers `%s` from %s, from_options looks them up from %s, both in steps of 1" % (key, first_d, first_p)
                   if ok else "numbering of `%s` differs or is not recognised: Display %s, from_options %s" % (key, dsh, psh),
                   all_keys[key].where)
    ctx.floor("P-PAIR", "encode_percents call sites in transport Display impls", n_enc, 3)
    # ---- transport names: Display prefix `name:` <-> Transport::from_options dispatch arm
    tfo = ctx.one(f.find(name="from_options", adt=MOD + "::Transport", trait=""), "Transport::from_options")
    dispatch = {}
    for blk, c, tt, ft, neg in mir.call_bool_switches(tfo):
        if c.is_("eq") and "str" in c.callee and len(c.args) > 1:
            nm = sf.pattern_const(tfo, c)
            under = {x.callee for x in mir.calls(tfo) if x.is_("from_options") and mir.block_dominates(tfo, tt, x.b)}
            if nm is not None and len(under) == 1:
                dispatch[nm] = next(iter(under))
    ctx.floor("P-TRANSPORT", "transport names dispatched by Transport::from_options", len(dispatch), 2)
    for p in sorted(parsers, key=lambda b: b.id):
        adt = p.d["impl_adt"]
        short = adt.rsplit("::", 1)[1]
        d0 = f.find(name="fmt", adt=adt, trait="core::fmt::Display")
        if len(d0) != 1:
            continue
        names = {}
        for w, text in formatter_writes(d0[0]):
            m = re.match(r"^([A-Za-z][A-Za-z0-9-]*):", text)
            if m:
                names.setdefault(m.group(1), w)
        ctx.floor("P-TRANSPORT", "transport name written by Display for " + short, len(names), 1)
        for nm, w in sorted(names.items()):
            ok = dispatch.get(nm) == p.id
            ctx.ob("P-TRANSPORT", "%s:%s" % (short, nm), ok,
                   "`%s:` written by %s's Display is dispatched to %s" % (nm, short, dispatch.get(nm)), w.where)
    # ---- enumerated option values (tcp `family`): Display variant->text must be FromStr text->variant
    n_enum = 0
    for aid, a in sorted(f.adts.items()):
        if not aid.startswith(MOD) or a["kind"] != "Enum":
            continue
        dd = f.find(name="fmt", adt=aid, trait="core::fmt::Display")
        pp = f.find(name="from_str", adt=aid, trait="core::str::traits::FromStr")
        if len(dd) != 1 or len(pp) != 1 or any(v["fields"] for v in a["variants"]):
            continue
        dd, pp = dd[0], pp[0]
        n_enum += 1
        disp = {}
        ws = formatter_writes(dd)
        for sb, pl, adt, arms, other in mir.discr_switches(dd, f, aid):
            for var, tgt in arms.items():
                for w, text in ws:
                    if mir.block_dominates(dd, tgt, w.b):
                        disp.setdefault(var, set()).add(text)
        parse = {}
        for blk, c, tt, ft, neg in mir.call_bool_switches(pp):
            if c.is_("eq") and "str" in c.callee and len(c.args) > 1:
                txt = sf.pattern_const(pp, c)
                vs = {rv[3] for b, i, pl, rv, ln in mir.assignments(pp)
                      if rv[0] == "agg" and rv[1] == "adt" and rv[2] == aid and mir.block_dominates(pp, tt, b)}
                if txt is not None and len(vs) == 1:
                    parse[txt] = next(iter(vs))
        for v in a["variants"]:
            texts = disp.get(v["name"], set())
            ok = len(texts) == 1 and parse.get(next(iter(texts))) == v["name"]
            ctx.ob("P-ENUM", "%s::%s" % (aid.rsplit("::", 1)[1], v["name"]), ok,
                   "Display writes %s for %s; FromStr maps it to %s" % (sorted(texts), v["name"], [parse.get(t) for t in texts]), dd.where)
    ctx.floor("P-ENUM", "enumerated option types with Display+FromStr", n_enum, 1)
    # ---- data-carrying enums (UnixSocket): variant written under `key=` must be the variant built from get(key)
    n_var = 0
    for aid, a in sorted(f.adts.items()):
        if not aid.startswith(MOD) or a["kind"] != "Enum" or not all(v["fields"] for v in a["variants"]) or aid == MOD + "::Transport":
            continue
        dd = f.find(name="fmt", adt=aid, trait="core::fmt::Display")
        if len(dd) != 1:
            continue
        dd = dd[0]
        disp = {}
        ws = formatter_writes(dd)
        for sb, pl, adt, arms, other in mir.discr_switches(dd, f, aid):
            for var, tgt in arms.items():
                for w, text in ws:
                    m = KEY_RE.search(text)
                    if m and mir.block_dominates(dd, tgt, w.b):
                        disp.setdefault(var, set()).add(m.group(1))
        if not disp:
            continue
        built = {}
        for p in parsers:
            for b, i, pl, rv, ln in mir.assignments(p):
                if rv[0] == "agg" and rv[1] == "adt" and rv[2] == aid and rv[4]:
                    built.setdefault(rv[3], set()).add(trace_key(p, rv[4][0]))
        for v in a["variants"]:
            n_var += 1
            dk, bk = disp.get(v["name"], set()), built.get(v["name"], set())
            ok = len(dk) == 1 and dk == bk
            ctx.ob("P-VARIANT", "%s::%s" % (aid.rsplit("::", 1)[1], v["name"]), ok,
                   "%s is written under %s and built from option %s" % (v["name"], sorted(dk), sorted(str(x) for x in bk)), dd.where)
    ctx.floor("P-VARIANT", "variants of data-carrying option enums", n_var, 1)
    # ---- keys written by Address itself (guid)
    ad = ctx.one(f.find(name="fmt", adt="zbus::address::Address", trait="core::fmt::Display"), "Display for Address")
    fs = ctx.one(f.find(name="from_str", adt="zbus::address::Address", trait="core::str::traits::FromStr"), "FromStr for Address")
    got = {}
    for b in f.family(fs):
        got.update(decoded_keys(f, b, dec.id))
    akeys = {}
    for w, text in formatter_writes(ad):
        for m in ANYKEY_RE.finditer(text):
            akeys.setdefault(m.group(1), w)
    for key, w in sorted(akeys.items()):
        ctx.ob("P-KEYS", "Address:%s:written-key-is-parsed" % key, key in got,
               "Address::fmt writes `%s=`; from_str looks it up" % key if key in got else
               "Address::fmt writes `%s=` but from_str never looks the key up" % key, w.where)
    ctx.floor("P-KEYS", "keys written by Display for Address", len(akeys), 1)


def run(ctx):
    ctx.explanation = ("K1 MIR of zbus::address: the character classes of decode_percents / encode_percents / decode_hex are "
                       "tabulated by evaluating their (call-free) MIR on every input and compared with the D-Bus "
                       "specification's optionally-escaped set; per transport, option keys written through "
                       "encode_percents by Display are paired with keys whose value from_options passes to decode_percents.")
    ctx.not_decided = ("address grammar (winnow), LOOKUP escape table contents, that decoded bytes (not the raw text) are stored, "
                       "windows/macos-only transports.")
    ctx.trusted.append("D-Bus specification, 'Server Addresses': optionally-escaped bytes [-0-9A-Za-z_/.\\*]")
    f = ctx.facts("K1")
    dec, enc = check_sets(ctx, f)
    check_pairs(ctx, f, dec, enc)
