"""C04 — Decoding untrusted bytes never crashes (DESIGN §5.C04).

  P-AUDIT   R-PANIC over the call-graph closure of the zvariant decode entry points (Data::deserialize*,
            every workspace impl of serde's Deserialize / DeserializeSeed / Visitor / SeqAccess / MapAccess /
            EnumAccess / VariantAccess / Deserializer, signature parsing) and of re-encoding (to_bytes*,
            serialized_size, the Serialize* / Serializer impls), in K1 (D-Bus only) and K2 (gvariant +
            option-as-array): each panic-capable site (MIR assert, unwrap/expect/panic!/unreachable!, slice
            indexing, drain/split_at/remove) is discharged by a dominating guard on its own operands, by the
            64-bit arithmetic assumption, or by a reviewed line in tables/panic_ok.json.
  P-REC     every deserialization re-entry on a child deserializer happens in an access type whose constructor
            incremented the container depth (recursion is bounded by the depth limits)
  P-ALLOC   no with_capacity / reserve / resize / vec![_; n] in the decode closure sized by an input-derived value
"""
from .. import mir, callgraph, panics

META = {
    "technique": "static analysis: panic-site audit over the MIR call-graph closure (guard recognition by dominating comparisons + reviewed table), recursion/allocation rules",
    "level": "Every panic-capable MIR construct in workspace code reachable from the decode / re-encode entry points is enumerated and must "
             "be discharged by a recognised dominating guard, the stated 64-bit arithmetic assumption, or a reviewed table line; a removed "
             "bounds check leaves its site undischarged. Does not decide panics inside third-party crates, nor stack depth per frame.",
}

SERDE_DE = ("serde_core::de::Deserialize", "serde_core::de::DeserializeSeed", "serde_core::de::Visitor", "serde_core::de::SeqAccess",
            "serde_core::de::MapAccess", "serde_core::de::EnumAccess", "serde_core::de::VariantAccess", "serde_core::de::Deserializer")
SERDE_SER = ("serde_core::ser::Serialize", "serde_core::ser::Serializer", "serde_core::ser::SerializeSeq", "serde_core::ser::SerializeTuple",
             "serde_core::ser::SerializeTupleStruct", "serde_core::ser::SerializeTupleVariant", "serde_core::ser::SerializeMap",
             "serde_core::ser::SerializeStruct", "serde_core::ser::SerializeStructVariant")
CRATES = ("zvariant", "zvariant_utils")


def roots(f):
    r = set()
    for b in f.all_bodies():
        if b.crate not in CRATES or b.root != b.id:
            continue
        t = b.d.get("impl_trait")
        if t in SERDE_DE or t in SERDE_SER:
            r.add(b.id)
        bid = b.id
        if bid.startswith("zvariant::serialized::data::Data::") and b.name.startswith("deserialize"):
            r.add(bid)
        if bid.startswith("zvariant::") and b.name in ("to_bytes", "to_bytes_for_signature", "serialized_size", "to_writer",
                                                       "to_writer_for_signature") and b.d.get("impl_trait") is None:
            r.add(bid)
        if b.crate == "zvariant_utils" and "signature" in bid and b.name in ("parse", "from_str", "try_from", "from_bytes", "validate"):
            r.add(bid)
        if b.d.get("impl_adt", "").endswith("signature::Signature") and t in ("core::str::traits::FromStr", "core::convert::TryFrom"):
            r.add(bid)
    return r


def pre_read_last_offset(ctx, f, cfg):
    """P-PRE: FramingOffsetSize::read_last_offset_from_buffer(self, buffer) requires buffer.len() >= width (or empty).
    Each call site must establish it: (A) the width was computed by for_encoded_container / for_bare_container in the
    same function from the length of the very buffer passed (len(buf), or b - a for buf[a..b]), or the buffer is a
    chunk `c[i..i + width]`; or (B) a dominating comparison relates the buffer (its bounds/length) to the width."""
    n = 0
    for b in f.all_bodies("zvariant"):
        for c in mir.calls(b):
            if not c.is_("FramingOffsetSize::read_last_offset_from_buffer"):
                continue
            n += 1
            recv, buf = c.args[0], c.args[1]
            how = None
            ro = mir.origin(b, recv)
            bo = mir.origin_base(b, buf)
            rng = None
            if bo[0] == "call" and bo[1].is_("index") and len(bo[1].args) > 1:
                r = mir.origin(b, bo[1].args[1])
                if r[0] == "rv" and r[1][0] == "agg" and (r[1][2] or "").endswith("Range"):
                    rng = (panics._nm(b, r[1][4][0]), panics._nm(b, r[1][4][1]), r[1][4])
            if ro[0] == "call" and ro[1].is_("for_encoded_container", "for_bare_container"):
                larg = panics._nm(b, ro[1].args[0])
                bdesc = panics._nm(b, buf)
                if larg in ("len(%s)" % bdesc, "len(%s)" % bdesc.lstrip("&")):
                    how = "width = for_encoded_container(len(buffer))"
                elif rng and larg == "Sub(%s,%s)" % (rng[1], rng[0]):
                    how = "width = for_encoded_container(b - a) for buffer = x[a..b]"
                elif rng:
                    # chunk x[i .. i + width]
                    eo = mir.origin(b, rng[2][1])
                    if eo[0] in ("place", "rv"):
                        d = panics._nm(b, rng[2][1])
                        rl = mir.root_local(b, recv)
                        wroots = panics.roots_of(b, recv)
                        eroots = panics.roots_of(b, rng[2][1])
                        if d.startswith("Add(%s," % rng[0]) and (wroots & eroots):
                            how = "buffer is the chunk x[i .. i + width]"
            if how is None:
                # (B) dominating comparison relating buffer and width
                site = panics.Site(b, c.b, "pre", "read_last_offset", c.line, [recv, buf] + (list(rng[2]) if rng else []))
                wroots = panics.roots_of(b, recv)
                broots = panics.roots_of(b, buf)
                if rng:
                    for x in rng[2]:
                        broots |= panics.roots_of(b, x)
                for sb, op, l, r, tt, ft, ln in mir.cmp_switches(b):
                    rs = panics.roots_of(b, l) | panics.roots_of(b, r)
                    strong_w = {x for x in wroots if x[1]} or wroots
                    strong_b = {x for x in broots if x[1]} or broots
                    if (rs & strong_w) and (rs & strong_b):
                        for e in (tt, ft):
                            if e is not None and mir.block_dominates(b, e, c.b) and panics._single_pred_edge(b, sb, e):
                                how = "dominating comparison %s(%s,%s)" % (op, panics._nm(b, l), panics._nm(b, r))
            ctx.ob("P-PRE", "%s:read_last_offset_from_buffer@%s[%s]" % (cfg, b.root, panics._nm(b, buf)), how is not None,
                   how or "buffer length is not related to the offset width before the read (width may exceed the buffer: subtract overflow)", c.where)
    ctx.floor("P-PRE", cfg + ":call sites of read_last_offset_from_buffer", n, 4)


def offsets_validated(ctx, f, cfg):
    """P-OFFSETS (added after seeded change C04b): the GVariant array/dict readers index the buffer with framing offsets
    taken from FramingOffsets (`bytes[pos..start + offset]`, table lines of next_key_seed / element_end); that is in
    bounds only because `from_encoded_array` rejects every offset greater than the start of the offset table. So each
    offset pushed there must be dominated by a comparison of *that value* with `offsets_start` whose failing edge
    returns Err."""
    fea = [b for b in f.find(name="from_encoded_array") if "FramingOffsets" in b.id]
    if not fea:
        ctx.ob("P-OFFSETS", cfg + ":from_encoded_array", False, "FramingOffsets::from_encoded_array not found", "-")
        return
    b = fea[0]
    pushes = [c for c in mir.calls(b) if c.callee.rsplit("::", 1)[-1] in ("push", "push_back", "push_front") and len(c.args) > 1]
    ctx.floor("P-OFFSETS", cfg + ":pushes of decoded offsets", len(pushes), 1)
    for c in pushes:
        val_desc = panics._nm(b, c.args[1])
        ok = None
        for sb, op, l, r, tt, ft, ln in mir.cmp_switches(b):
            dl, dr = panics._nm(b, l), panics._nm(b, r)
            # the compared value must be the same expression that is pushed (re-reading the same bytes counts: same description)
            sides = {dl: dr, dr: dl}
            if val_desc not in sides:
                continue
            other = sides[val_desc]
            if "offsets_start" not in other and "read_last_offset_from_buffer" not in other:
                continue
            for e in (tt, ft):
                if e is not None and mir.block_dominates(b, e, c.b) and panics._single_pred_edge(b, sb, e):
                    ok = "%s(%s,%s) line %d" % (op, dl, dr, ln)
        ctx.ob("P-OFFSETS", cfg + ":from_encoded_array:offset-bounded-by-offsets_start", ok is not None,
               "each offset is compared with offsets_start before it is kept: " + ok if ok else
               "an offset read from the buffer is kept without being compared with offsets_start: the readers index "
               "`bytes[pos..start+offset]` with it (slice index out of range on hostile input)", c.where)


REC_EXEMPT = {
    "zvariant::de::Enum": "enum payloads: nesting depth is fixed by the Rust type being decoded, not by input bytes",
    "zvariant::serialized::data::Data": "top-level entry point",
    "zvariant::dbus::de::Deserializer": "deserialize_seq decodes the single u8 of an empty struct (no child container)",
    "zvariant::gvariant::de::Deserializer": "deserialize_seq decodes the single u8 of an empty struct; deserialize_option increments the maybe depth itself",
}


def rec_rule(ctx, f, cfg):
    """P-REC: every access type that re-enters deserialization with one of zvariant's own deserializers increments a
    container depth (in its constructor or in the re-entering method): recursion depth <= 64 + static type nesting."""
    incs = {}
    for b in f.all_bodies("zvariant"):
        for c in mir.calls(b):
            if "ContainerDepths::inc_" in c.callee:
                # ContainerDepths is Copy and inc_* takes it by value: the increment only counts if its result is kept
                # (stored into a `container_depths` place or used to build the child (de)serializer)
                der = mir.derives(b, {c.dest[0]})
                kept = False
                for bi, i, pl, rv, ln in mir.assignments(b):
                    uses = any(l in der for op in mir.rvalue_operands(rv) for l in mir.operand_locals(op))
                    if not uses:
                        continue
                    if "container_depths" in mir.place_fields(pl):
                        kept = True
                    if rv[0] == "agg" and rv[1] == "adt" and "container_depths" in (rv[5] if len(rv) > 5 and rv[5] else []):
                        idx = rv[5].index("container_depths")
                        if any(l in der for l in mir.operand_locals(rv[4][idx])):
                            kept = True
                ctx.ob("P-REC", "%s:%s::%s:%s-result-kept" % (cfg, b.d.get("impl_adt"), b.name, c.callee.rsplit("::", 1)[-1]), kept,
                       "the incremented depth is stored / handed to the child" if kept else
                       "the result of %s is discarded (ContainerDepths is Copy): the depth never grows, nesting is unbounded" % c.callee.rsplit("::", 1)[-1], c.where)
                if kept:
                    incs.setdefault(b.d.get("impl_adt"), set()).add(b.name)
    n = 0
    seen = set()
    for b in f.all_bodies("zvariant"):
        for c in mir.calls(b):
            if c.declared not in ("serde_core::de::DeserializeSeed::deserialize", "serde_core::de::Deserialize::deserialize"):
                continue
            at = (c.c.get("argtys") or [""])[-1]
            if not any(t in at for t in ("zvariant::dbus::de::Deserializer", "zvariant::gvariant::de::Deserializer", "zvariant::de::Deserializer")):
                continue
            adt = b.d.get("impl_adt")
            key = (adt, b.name)
            if key in seen:
                continue
            seen.add(key)
            n += 1
            if adt in REC_EXEMPT:
                ok, why = True, "exempt: " + REC_EXEMPT[adt]
                if adt and adt.endswith("gvariant::de::Deserializer"):
                    ok = "deserialize_option" in incs.get(adt, ())
                    why += "" if ok else " -- but deserialize_option no longer increments the maybe depth"
            else:
                ok = bool(incs.get(adt))
                why = "%s increments the depth in %s" % (adt, sorted(incs.get(adt, ()))) if ok else \
                    "%s re-enters deserialization but never calls ContainerDepths::inc_*: unbounded recursion on nested input" % adt
            ctx.ob("P-REC", "%s:%s::%s" % (cfg, adt, b.name), ok, why, c.where)
    ctx.floor("P-REC", cfg + ":deserialization re-entry sites", n, 6)


ALLOC_NAMES = ("with_capacity", "reserve", "reserve_exact", "resize", "resize_with", "from_elem", "with_capacity_and_hasher",
               "try_reserve", "extend_from_within")


def alloc_rule(ctx, f, cfg, reach):
    """P-ALLOC: allocation-sizing calls in the decode closure take a constant or the length of an in-memory object."""
    n = 0
    for bid in sorted(reach):
        b = f.bodies.get(bid)
        if not b or b.crate not in CRATES:
            continue
        for c in mir.calls(b):
            name = c.callee.rsplit("::", 1)[-1]
            if name not in ALLOC_NAMES or not (c.callee.startswith("alloc::") or c.callee.startswith("std::") or c.callee.startswith("core::")):
                continue
            n += 1
            size = c.args[-1] if name in ("with_capacity", "from_elem") else (c.args[1] if len(c.args) > 1 else c.args[0])
            if name == "from_elem":
                size = c.args[1]
            o = mir.origin(b, size)
            ok = o[0] == "const" or (o[0] == "call" and o[1].callee.rsplit("::", 1)[-1] in ("len", "string_len", "count", "capacity"))
            ctx.ob("P-ALLOC", "%s:%s:%s" % (cfg, b.id, name), ok,
                   "size operand is %s" % (panics._nm(b, size)), c.where)
    ctx.extra.setdefault("alloc_sites", {})[cfg] = n


AUDITS = [("K2", roots, CRATES), ("K1", roots, CRATES)]


def run(ctx):
    ctx.explanation = ("R-PANIC: all panic-capable MIR constructs (overflow/bounds asserts, unwrap/expect/panic!, slice Index, "
                       "drain/split_at/remove) in zvariant + zvariant_utils code reachable from the decode and re-encode entry points and "
                       "from every serde trait impl of those crates are enumerated per configuration; each must be discharged by a "
                       "dominating guard on its operands, the 64-bit arithmetic assumption, or a reviewed table line.")
    ctx.not_decided = "panics inside third-party crates (serde, winnow, endi) beyond their documented contracts; stack use per frame."
    ctx.assumptions.append("64-bit usize: Add/Mul on usize/u64 of lengths, positions and u32 wire fields cannot overflow")
    for cfg in ("K2", "K1"):
        f = ctx.facts(cfg)
        rs = roots(f)
        ctx.floor("P-AUDIT", cfg + ":decode/encode roots", len(rs), 150)
        reach, _ = panics.audit(ctx, f, rs, "P-AUDIT", crates=CRATES, label=cfg + ":")
        rec_rule(ctx, f, cfg)
        alloc_rule(ctx, f, cfg, reach)
        if cfg == "K2":
            pre_read_last_offset(ctx, f, cfg)
            offsets_validated(ctx, f, cfg)
