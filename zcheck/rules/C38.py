"""C38 — Transport failures end pending work with errors, never hangs (DESIGN §5.C38).

Socket reader task (`SocketReader::receive_msg`, the body that awaits `read_socket`):
  T-BCAST-ALL   inside the loop over the sender map, every path of one iteration on which the read
                result is not `Ok` performs `broadcast_direct` with (a clone of) that result before the
                next element is fetched or the loop is left (the error reaches *every* sender, also the
                method-return channel that pending calls listen on)
  T-BCAST-FIRST the sender map is cleared only after that loop was entered (the `next()` of the loop
                dominates `clear`): clearing first would broadcast to nobody
  T-CLEAR       every normal completion of the reader task is preceded by `HashMap::clear` on the guard
                of the sender map; on the non-Ok path after the loop neither another `read_socket` nor the
                end of the task is reachable without that `clear`
  T-STOP        after `clear` no further `read_socket` is reachable (the task ends instead of spinning)
  T-WIRE        the map the reader iterates/clears is `ConnectionInner.msg_senders`
                (`init_socket_reader` passes a clone of that Arc, `SocketReader::new` stores it in `senders`,
                the reader locks `self.senders`)
  B-NOWAIT      every channel the reader broadcasts into is created (`async_broadcast::broadcast`, in
                `Connection::new` and `add_match`) with `set_await_active(false)` applied to its receiver on every path:
                otherwise `broadcast_direct` to a channel that has only inactive receivers would block the reader —
                and with it the error broadcast — forever
Later subscriptions:
  A-EMPTY       `Connection::add_match` tests `is_empty()` of the locked `msg_senders` map before creating or
                activating any receiver; the empty edge returns `Err` only and touches no channel / no
                subscription table
Pending calls:
  P-ARMS        `<PendingMethodCall as OrderedFuture>::poll_before`: `Poll::Pending` is produced only under the
                `Poll::Pending` arm of `poll_next_before`; the `Terminated` arm and the `Item{data: Err}` arm
                return `Poll::Ready` without polling again, the latter carrying the stream's error
  P-NONE        `<PendingMethodCall as Future>::poll` turns the `None` of poll_before into `Err(..)`
                and never fabricates `Pending`
Streams:
  M-STREAM      `<MessageStream as Stream>::poll_next` returns the poll of its broadcast receiver unchanged;
                `<MessageStream as OrderedStream>::poll_next_before` builds `Pending` only under the receiver's
                `Pending`, maps `Ready(None)` (channel closed by the reader's teardown) to `PollResult::Terminated`
                only, and `Ready(Some(Err(e)))` to an `Item` carrying `Err(e)`
End of file:
  E-EOF         default `ReadHalf::receive_message`: after every `recvmsg` the byte count is compared with 0
                before the next `recvmsg` / before the `Ok` result; the zero edge returns `Err` only
Panics:
  P-READER      the reader task's own frames (`receive_msg`, `read_socket` and their closures) contain no
                panic-capable construct (unwrap/expect/panic!/assert!/indexing/overflow check) outside the
                `tracing` macro expansions, except the reviewed list below

Dropped from the design: the whole-closure R-PANIC audit of everything the reader calls (message parsing
is C12/C14's audit, rule matching C21's); promptness.
"""
from .. import mir, awaits as aw
from .. import lib_cflow as cf

META = {
    "technique": "MIR control-flow rules (edge-precise reachability, dominance, switch arms) on the reader task, add_match and PendingMethodCall",
    "level": "Decides that on every non-Ok read the reader broadcasts the result to every sender, then clears "
             "ConnectionInner.msg_senders and ends; that add_match refuses on the cleared map before touching any channel; "
             "that PendingMethodCall completes with Ready on stream error/termination and maps None to Err; that EOF "
             "(0 bytes) leaves receive_message with Err. Does not decide promptness, the behaviour of async-broadcast / "
             "the transport, nor panics below the reader's own frames.",
}

READER = "zbus::connection::socket_reader::SocketReader"
RES_MSG = "core::result::Result<zbus::message::Message, zbus::error::Error>"
RESULT = "core::result::Result"
POLL = "core::task::poll::Poll"
OPTION = "core::option::Option"
POLLRESULT = "ordered_stream::PollResult"
PMC = "zbus::connection::PendingMethodCall"
READHALF = "zbus::connection::socket::ReadHalf"

# reviewed panic-capable constructs inside the reader's own frames: (root fn, kind) -> invariant
PANIC_OK = {
    (READER + "::read_socket", "assert:overflow:Add"):
        "`prev_seq + 1` on a u64 that starts at 0 and grows by one per received message",
}


def _is_ref_or_val(ty, base):
    t = ty
    while t.startswith("&"):
        t = t[1:].lstrip()
        if t.startswith("'"):
            t = t.split(" ", 1)[1] if " " in t else t
        if t.startswith("mut "):
            t = t[4:]
    return t == base


def _poll_result_local(body, awt):
    """dest local of the `Future::poll` call belonging to the await `awt` (same desugaring span)."""
    for c in mir.calls(body):
        if c.c["sp"] == awt.sp and c.declared.endswith("future::Future::poll"):
            return c.dest[0]
    return None


def _is_sender_guard(ty):
    return "MutexGuard<" in ty and "async_broadcast::Sender<" + RES_MSG in ty


def check_reader(ctx, f):
    root = READER + "::receive_msg"
    ctx.need([f.bodies.get(root)] if f.bodies.get(root) else [], "fn " + root)
    R = cf.real_coroutine(ctx, f, root, lambda b: bool(mir.calls_to(b, "SocketReader::read_socket")),
                          "coroutine of SocketReader::receive_msg that awaits read_socket")
    reads = mir.calls_to(R, "SocketReader::read_socket")
    aws = aw.awaits(f, R)
    raw = [a for a in aws if a.call is not None and a.call.is_("SocketReader::read_socket")]
    ctx.floor("T-BCAST-ALL", "awaits of read_socket in the reader task", len(raw), 1)
    seeds = set()
    for a in raw:
        pl = _poll_result_local(R, a)
        if pl is not None:
            seeds.add(pl)
    ctx.need(sorted(seeds), "poll result of the read_socket await")
    # value-flow without calls: the read result itself, moves of it and references to it
    D = mir.derives(R, seeds, through_calls=False)
    MSG = {l for l in D if _is_ref_or_val(cf.local_type(R, l), RES_MSG)}
    ctx.need(sorted(MSG), "local holding the Result<Message> read from the socket")
    Dfull = mir.derives(R, seeds, through_calls=True)

    ok_e, err_e, mixed = cf.variant_edges(R, f, MSG, RESULT, "Ok")
    y, n = cf.call_test_edges(R, MSG, ("Result::<T, E>::is_ok",), ("Result::<T, E>::is_err",))
    ok_e += y
    err_e += n

    guards = {l for l in range(len(R.locals)) if _is_sender_guard(cf.local_type(R, l)) and
              not cf.local_type(R, l).startswith("core::task::poll::Poll")}
    ctx.need(sorted(guards), "MutexGuard of the sender map in the reader task")
    G = mir.derives(R, guards, through_calls=True)

    bcs = [c for c in mir.calls(R) if c.callee.startswith("async_broadcast::Sender") and
           c.is_("broadcast_direct", "broadcast")]
    ctx.floor("T-BCAST-ALL", "broadcast calls in the reader task", len(bcs), 1)
    clears = [c for c in mir.calls(R) if c.is_("HashMap::<K, V, S, A>::clear", "HashMap::<K, V, S>::clear", "clear")
              and "HashMap" in c.callee and c.args and set(mir.operand_locals(c.args[0])) & G]
    ctx.floor("T-CLEAR", "clear() of the sender map in the reader task", len(clears), 1)
    clear_b = {c.b for c in clears}
    read_b = {c.b for c in reads}
    exits = set(mir.exits(R))

    # ---- the broadcast loop(s)
    loops = []
    for c in bcs:
        where = c.where
        pay = c.args[1] if len(c.args) > 1 else None
        pay_ok = pay is not None and set(mir.operand_locals(pay)) & Dfull and \
            _is_ref_or_val(cf.operand_type(R, pay), RES_MSG)
        ctx.ob("T-BCAST-ALL", "payload-is-read-result", pay_ok,
               "broadcast payload is the result read from the socket" if pay_ok else
               "broadcast payload does not derive from the read result (type %s)" % (cf.operand_type(R, pay) if pay else "?"),
               where)
        # the `next()` that yields this sender: receiver of the broadcast derives from its result
        nxs = []
        for nx in mir.calls(R):
            if not nx.is_("Iterator::next", "next") or "Iterator" not in (nx.declared + nx.callee):
                continue
            if nx.args and set(mir.operand_locals(nx.args[0])) & G and \
                    set(mir.operand_locals(c.args[0])) & mir.derives(R, {nx.dest[0]}, through_calls=False):
                nxs.append(nx)
        ok = len(nxs) == 1
        ctx.ob("T-BCAST-ALL", "loop-over-sender-map", ok,
               "the broadcasting sender comes from one iterator over the locked sender map" if ok else
               "%d iterator next() calls over the sender-map guard feed this broadcast" % len(nxs), where)
        if not ok:
            continue
        nx = nxs[0]
        some_e, none_e, mx = cf.variant_edges(R, f, {nx.dest[0]}, OPTION, "Some", only_deref=False)
        some_e = [e for e in some_e]
        ctx.need(some_e, "Some edge of the sender-map iteration")
        loops.append((c, nx, some_e, none_e))
        r1 = cf.reach_e(R, [t for _, t in some_e], avoid_blocks={x.b for x in bcs}, avoid_edges=ok_e)
        bad = []
        if nx.b in r1:
            bad.append("the next sender is fetched")
        if r1 & exits:
            bad.append("the task ends")
        if r1 & clear_b:
            bad.append("the map is cleared")
        ctx.ob("T-BCAST-ALL", "every-sender-gets-non-ok-result", not bad and not mixed,
               "on a non-Ok read result every iteration reaches broadcast_direct" if not bad else
               "with a non-Ok read result an iteration can skip the broadcast: %s" % ", ".join(bad), where)

    # ---- teardown
    for c in clears:
        dom = any(mir.block_dominates(R, nx.b, c.b) for _, nx, _, _ in loops)
        ctx.ob("T-BCAST-FIRST", "clear-after-broadcast-loop", dom,
               "clear() is reached only through the broadcast loop" if dom else
               "clear() of the sender map is reachable without entering the broadcast loop", c.where)
        r = cf.reach_e(R, [c.b])
        again = sorted(r & read_b)
        ctx.ob("T-STOP", "no-read-after-clear", not again,
               "after clear() the task cannot reach read_socket again" if not again else
               "read_socket is reachable after the sender map was cleared", c.where)
    no_clear = cf.reach_e(R, [0], avoid_blocks=clear_b)
    leak = sorted(no_clear & exits)
    ctx.ob("T-CLEAR", "clear-before-task-end", not leak,
           "every normal completion of the reader task passes clear() of the sender map" if not leak else
           "the reader task can complete without clearing the sender map", R.where)
    for c, nx, some_e, none_e in loops:
        starts = [t for _, t in none_e]
        ctx.need(starts, "None edge of the sender-map iteration")
        r2 = cf.reach_e(R, starts, avoid_blocks=clear_b, avoid_edges=ok_e)
        bad = []
        if r2 & read_b:
            bad.append("reads the socket again")
        if r2 & exits:
            bad.append("ends")
        ctx.ob("T-CLEAR", "non-ok-result-leads-to-clear", not bad,
               "after broadcasting a non-Ok result every path passes clear()" if not bad else
               "after broadcasting a non-Ok result the task %s without clear()" % " / ".join(bad),
               "%s:%d" % (R.file, nx.line))

    # ---- wiring of the map
    locks = [c for c in mir.calls(R) if c.is_("lock") and "Mutex" in c.callee]
    from_field = False
    for lk in locks:
        o = mir.origin_base(R, lk.args[0])
        pl = None
        if o[0] == "call" and o[1].is_("deref") and o[1].args:
            o2 = mir.origin(R, o[1].args[0])
            if o2[0] in ("ref", "place"):
                pl = o2[1]
        elif o[0] in ("ref", "place"):
            pl = o[1]
        if pl is not None and "senders" in mir.place_fields(pl):
            from_field = True
    ctx.ob("T-WIRE", "reader-locks-self.senders", from_field,
           "the guard is taken on SocketReader.senders", R.where)
    new = ctx.one(f.find(name="new", adt=READER, trait=""), "SocketReader::new")
    aggs = [(rv, ln) for b, i, pl, rv, ln in mir.assignments(new) if rv[0] == "agg" and rv[1] == "adt" and rv[2] == READER]
    ctx.need(aggs, "construction of SocketReader in new")
    sender_arg = None
    for rv, ln in aggs:
        idx = rv[5].index("senders")
        l = mir.root_local(new, rv[4][idx])
        ok = l is not None and 0 < l <= new.d["argc"] and mir.local_name(new, l) is not None
        sender_arg = l
        ctx.ob("T-WIRE", "new-stores-argument", ok, "SocketReader.senders is the constructor argument `%s`" %
               mir.local_name(new, l), "%s:%d" % (new.file, ln))
    isr = ctx.one(f.find(name="init_socket_reader", adt="zbus::connection::Connection", trait=""),
                  "Connection::init_socket_reader")
    ncalls = mir.calls_to(isr, "SocketReader::new")
    ctx.floor("T-WIRE", "SocketReader::new calls in init_socket_reader", len(ncalls), 1)
    for c in ncalls:
        ok = False
        detail = "argument origin unknown"
        if sender_arg is not None and sender_arg - 1 < len(c.args):
            o = mir.origin(isr, c.args[sender_arg - 1])
            if o[0] == "call" and o[1].is_("clone") and "Arc" in o[1].callee and o[1].args:
                o2 = mir.origin(isr, o[1].args[0])
                if o2[0] in ("ref", "place"):
                    flds = mir.place_fields(o2[1])
                    ok = "msg_senders" in flds
                    detail = "Arc::clone of %s" % mir.place_str(isr, o2[1])
            elif o[0] in ("ref", "place"):
                ok = "msg_senders" in mir.place_fields(o[1])
                detail = mir.place_str(isr, o[1])
        ctx.ob("T-WIRE", "reader-gets-msg_senders", ok, "sender map handed to the reader: " + detail, c.where)
    # all construction sites of SocketReader::new
    n = 0
    for b in f.all_bodies("zbus"):
        for c in mir.calls_to(b, "SocketReader::new"):
            n += 1
            ctx.ob("T-WIRE", "reader-constructed-in:" + b.root, b.root == isr.id,
                   "SocketReader is constructed by init_socket_reader" if b.root == isr.id else
                   "unexpected construction site of the socket reader", c.where)
    return R


def check_nowait(ctx, f):
    sites = []
    for b in f.all_bodies("zbus"):
        for c in mir.calls(b):
            if c.callee == "async_broadcast::broadcast" and RES_MSG in c.fnargs:
                sites.append((b, c))
    ctx.floor("B-NOWAIT", "broadcast channel creations for Result<Message>", len(sites), 3)
    for b, c in sites:
        ok_root = b.root in ("zbus::connection::Connection::new", "zbus::connection::Connection::add_match")
        ctx.ob("B-NOWAIT", "channel-created-in:" + b.root, ok_root,
               "connection channel" if ok_root else "unexpected creator of a message channel", c.where)
        der = mir.derives(b, {c.dest[0]}, through_calls=True)
        sets = []
        for x in mir.calls(b):
            if x.is_("set_await_active") and x.callee.startswith("async_broadcast::") and len(x.args) > 1 and \
                    set(mir.operand_locals(x.args[0])) & der and mir.block_dominates(b, c.b, x.b):
                k = mir.resolve_const(b, x.args[1])
                if k is not None and k.get("v") in (False, 0):
                    sets.append(x)
        r = cf.reach_e(b, [c.c["t"]], avoid_blocks={x.b for x in sets})
        leak = r & set(mir.exits(b))
        ctx.ob("B-NOWAIT", "await_active-disabled:" + b.root, bool(sets) and not leak,
               "set_await_active(false) follows the channel creation on every path" if sets and not leak else
               "a message channel is created without set_await_active(false)", c.where)



def check_add_match(ctx, f):
    A = cf.real_coroutine(ctx, f, "zbus::connection::Connection::add_match",
                          lambda b: any(c.is_("is_empty") or c.callee.startswith("async_broadcast::") for c in mir.calls(b)),
                          "coroutine of Connection::add_match")
    tests = []
    for sb, c, tt, ft, neg in mir.call_bool_switches(A):
        if c.is_("is_empty") and "HashMap" in c.callee and c.args and \
                "async_broadcast::Sender<" in (c.c.get("argtys") or [""])[0]:
            tests.append((sb, c, tt, ft))
    ctx.floor("A-EMPTY", "is_empty tests of the sender map in add_match", len(tests), 1)
    # the tested map is the locked msg_senders
    for sb, c, tt, ft in tests:
        o = mir.origin_base(A, c.args[0])
        okg = o[0] == "call" and o[1].is_("deref", "deref_mut") and "MutexGuard" in o[1].callee
        locks = [x for x in mir.calls(A) if x.is_("lock") and "Mutex" in x.callee and
                 "async_broadcast::Sender<" in x.callee + x.fnargs]
        fld = False
        for lk in locks:
            if not mir.block_dominates(A, lk.b, c.b):
                continue
            oo = mir.origin_base(A, lk.args[0])
            if oo[0] == "call" and oo[1].is_("deref") and oo[1].args:
                o2 = mir.origin(A, oo[1].args[0])
                if o2[0] in ("ref", "place") and "msg_senders" in mir.place_fields(o2[1]):
                    fld = True
            elif oo[0] in ("ref", "place") and "msg_senders" in mir.place_fields(oo[1]):
                fld = True
        ctx.ob("A-EMPTY", "tests-locked-msg_senders", okg and fld,
               "is_empty() is asked of the locked ConnectionInner.msg_senders map" if okg and fld else
               "is_empty() receiver is not the locked msg_senders map", c.where)
        chan = [x for x in mir.calls(A) if x.callee.startswith("async_broadcast::") or
                (x.is_("entry", "insert") and "HashMap" in x.callee)]
        ctx.floor("A-EMPTY", "channel/subscription operations in add_match", len(chan), 2)
        empty_reach = cf.reach_e(A, [tt])
        touched = [x for x in chan if x.b in empty_reach]
        ctx.ob("A-EMPTY", "empty-edge-touches-nothing", not touched,
               "the empty-map edge performs no channel or subscription operation" if not touched else
               "the empty-map edge reaches %s" % sorted({x.callee for x in touched})[:3], c.where)
        rets = [(b, rv) for b, i, rv, ln in mir.ret_values(A, empty_reach)]
        rcalls = [x for x in mir.calls(A) if x.b in empty_reach and x.dest[0] == mir.RET and not x.dest[1]]
        only_err = bool(rets or rcalls) and all(rv[0] == "agg" and rv[2] == RESULT and rv[3] == "Err" for b, rv in rets) \
            and all(x.is_("from_residual") for x in rcalls)
        ctx.ob("A-EMPTY", "empty-edge-returns-err", only_err,
               "the empty-map edge returns Err" if only_err else "the empty-map edge can return something other than Err",
               c.where)
        undominated = [x for x in chan if not cf.edge_dominates(A, (sb, ft), x.b)]
        ctx.ob("A-EMPTY", "test-precedes-every-channel-operation", not undominated,
               "every channel/subscription operation lies behind the non-empty edge" if not undominated else
               "%s reachable without passing the non-empty edge" % sorted({x.callee for x in undominated})[:3], c.where)


def check_pending(ctx, f):
    pb = ctx.one(f.find(name="poll_before", adt=PMC, trait="ordered_stream::OrderedFuture"),
                 "<PendingMethodCall as OrderedFuture>::poll_before")
    polls = [c for c in mir.calls(pb) if c.is_("poll_next_before", "poll_next")]
    ctx.floor("P-ARMS", "stream polls in PendingMethodCall::poll_before", len(polls), 1)
    poll_b = {c.b for c in polls}
    roots = {c.dest[0] for c in polls}
    pend_e, notpend_e, _ = cf.variant_edges(pb, f, roots, POLL, "Pending", only_deref=False)
    # Pending aggregates
    for b, i, pl, rv, ln in mir.assignments(pb):
        if rv[0] == "agg" and rv[1] == "adt" and rv[2] == POLL and rv[3] == "Pending":
            ok = bool(pend_e) and cf.edges_dominate(pb, pend_e, b)
            ctx.ob("P-ARMS", "pending-only-when-stream-pending", ok,
                   "Poll::Pending is built only under the Pending arm of the stream poll" if ok else
                   "Poll::Pending is returned on a path where the stream did not return Pending", "%s:%d" % (pb.file, ln))
    for c in mir.calls(pb):
        if c.dest[0] == mir.RET and not c.dest[1]:
            ctx.ob("P-ARMS", "return-from-call:" + c.callee, False,
                   "poll_before returns the result of a call; arms cannot be classified", c.where)

    def arm(name, edges, want_err):
        ctx.need(edges, "%s arm of the stream poll in poll_before" % name)
        for e in edges:
            r = cf.reach_e(pb, [e[1]])
            where = "%s:%d" % (pb.file, mir.term(pb, e[0])[5])
            again = r & poll_b
            rets = [(b, rv) for b, i, rv, ln in mir.ret_values(pb, r)]
            ready = bool(rets) and all(rv[0] == "agg" and rv[2] == POLL and rv[3] == "Ready" for b, rv in rets)
            ctx.ob("P-ARMS", name + "-completes", not again and ready,
                   "the %s arm returns Poll::Ready without polling the stream again" % name if not again and ready else
                   "the %s arm %s" % (name, "polls the stream again" if again else "does not return Poll::Ready"), where)
            if want_err:
                errs = [rv for b, i, pl, rv, ln in mir.assignments(pb) if b in r and rv[0] == "agg" and rv[2] == RESULT
                        and rv[3] == "Err" and set(mir.operand_locals(rv[4][0])) & mir.derives(pb, roots, through_calls=False)]
                ctx.ob("P-ARMS", name + "-carries-error", bool(errs),
                       "the error item of the stream is passed on as Err" if errs else
                       "the error item of the stream is not passed on", where)

    term_e = []
    item_err_e = []
    for sb, place, adt, arms, other in cf.discr_switches(pb, f):
        if place[0] not in roots:
            continue
        if adt == POLLRESULT and "Terminated" in arms:
            term_e.append((sb, arms["Terminated"]))
        if adt == RESULT and "data" in mir.place_fields(place):
            if "Err" in arms:
                item_err_e.append((sb, arms["Err"]))
            elif "Ok" in arms:
                item_err_e.append((sb, other))
    arm("Terminated", term_e, False)
    arm("Item-Err", item_err_e, True)

    # ---- Future::poll maps None to Err
    fp = ctx.one(f.find(name="poll", adt=PMC, trait="core::future::future::Future"), "<PendingMethodCall as Future>::poll")
    fam = f.family(fp)
    pend = 0
    for b in fam:
        for bi, i, pl, rv, ln in mir.assignments(b):
            if rv[0] == "agg" and rv[1] == "adt" and rv[2] == POLL and rv[3] == "Pending":
                pend += 1
    ctx.ob("P-NONE", "poll-builds-no-pending", pend == 0,
           "Future::poll only forwards poll_before's Pending" if pend == 0 else "Future::poll fabricates Poll::Pending", fp.where)
    fw = [c for b in fam for c in mir.calls(b) if c.is_("poll_before")]
    ctx.ob("P-NONE", "poll-forwards-to-poll_before", len(fw) >= 1, "Future::poll polls through poll_before", fp.where)
    found = False
    detail = "no recognised None -> Err mapping (unwrap_or_else / unwrap_or / ok_or* / match None)"
    for b in fam:
        for c in mir.calls(b):
            if c.is_("unwrap_or_else", "map_or_else", "unwrap_or", "map_or") and "Option" in c.callee and len(c.args) > 1:
                dflt = c.args[1]
                o = mir.origin(b, dflt)
                if o[0] == "rv" and o[1][0] == "agg" and o[1][1] == "closure" and o[1][2] in f.bodies:
                    cb = f.bodies[o[1][2]]
                    rets = [rv for bb, i, rv, ln in mir.ret_values(cb)]
                    if rets and all(rv[0] == "agg" and rv[2] == RESULT and rv[3] == "Err" for rv in rets) and \
                            not [x for x in mir.calls(cb) if x.dest[0] == mir.RET]:
                        found = True
                        detail = "%s with a default closure that returns Err only" % c.callee.split("::")[-1]
                elif o[0] == "rv" and o[1][0] == "agg" and o[1][2] == RESULT and o[1][3] == "Err":
                    found = True
                    detail = "%s(Err(..))" % c.callee.split("::")[-1]
        for sb, place, adt, arms, other in cf.discr_switches(b, f):
            if adt != OPTION:
                continue
            tgt = arms.get("None", other if "Some" in arms else None)
            if tgt is None:
                continue
            r = cf.reach_e(b, [tgt])
            rets = [rv for bb, i, rv, ln in mir.ret_values(b, r)]
            if rets and all((rv[0] == "agg" and ((rv[2] == RESULT and rv[3] == "Err") or (rv[2] == POLL and rv[3] == "Ready")))
                            for rv in rets) and any(rv[0] == "agg" and rv[2] == RESULT and rv[3] == "Err"
                                                    for bb, i, pl, rv, ln in mir.assignments(b) if bb in r):
                found = True
                detail = "match arm None builds Err"
    ctx.ob("P-NONE", "none-becomes-err", found, detail, fp.where)


MSTREAM = "zbus::message_stream::MessageStream"


def check_stream(ctx, f):
    pn = ctx.one(f.find(name="poll_next", adt=MSTREAM, trait="futures_core::stream::Stream"), "<MessageStream as Stream>::poll_next")
    rcalls = [c for c in mir.calls(pn) if c.is_("poll_next") and c.callee.startswith("<async_broadcast::Receiver")]
    ctx.floor("M-STREAM", "receiver polls in MessageStream::poll_next", len(rcalls), 1)
    der = mir.derives(pn, {c.dest[0] for c in rcalls}, through_calls=False)
    built = [rv for b, i, pl, rv, ln in mir.assignments(pn) if rv[0] == "agg" and rv[1] == "adt" and rv[2] in (POLL, OPTION)]
    rets_ok = all(set(mir.operand_locals(op)) & der for b, i, rv, ln in mir.ret_values(pn) for op in mir.rvalue_operands(rv))
    direct = [c for c in mir.calls(pn) if c.dest[0] == mir.RET]
    ok = not built and rets_ok and all(c in rcalls for c in direct) and (direct or list(mir.ret_values(pn)))
    ctx.ob("M-STREAM", "poll_next-forwards-receiver", bool(ok),
           "MessageStream::poll_next returns the receiver's poll result unchanged" if ok else
           "MessageStream::poll_next does not simply forward the receiver's poll result", pn.where)
    for c in rcalls:
        o = mir.origin_base(pn, c.args[0])
        fl = []
        if o[0] == "call" and o[1].args:
            o2 = mir.origin(pn, o[1].args[0])
            fl = mir.place_fields(o2[1]) if o2[0] in ("ref", "place") else []
        ctx.ob("M-STREAM", "polls-msg_receiver", "msg_receiver" in fl, "the polled receiver is inner.msg_receiver", c.where)

    pb = ctx.one(f.find(name="poll_next_before", adt=MSTREAM, trait="ordered_stream::OrderedStream"),
                 "<MessageStream as OrderedStream>::poll_next_before")
    polls = [c for c in mir.calls(pb) if c.is_("poll_next") and "Stream" in c.declared + c.callee]
    ctx.floor("M-STREAM", "polls in MessageStream::poll_next_before", len(polls), 1)
    roots = {c.dest[0] for c in polls}
    pend_e, _, _ = cf.variant_edges(pb, f, roots, POLL, "Pending", only_deref=False)
    for b, i, pl, rv, ln in mir.assignments(pb):
        if rv[0] == "agg" and rv[1] == "adt" and rv[2] == POLL and rv[3] == "Pending":
            ok = bool(pend_e) and cf.edges_dominate(pb, pend_e, b)
            ctx.ob("M-STREAM", "pending-only-when-receiver-pending", ok,
                   "Poll::Pending is built only under the receiver's Pending" if ok else
                   "Poll::Pending is returned although the receiver was Ready", "%s:%d" % (pb.file, ln))
    none_e, err_e = [], []
    for sb, place, adt, arms, other in cf.discr_switches(pb, f):
        if place[0] not in roots:
            continue
        downs = [p[1] for p in place[1] if isinstance(p, list) and p[0] == "as"]
        if adt == OPTION and downs == ["Ready"]:
            if "None" in arms:
                none_e.append((sb, arms["None"]))
            elif "Some" in arms:
                none_e.append((sb, other))
        if adt == RESULT and downs == ["Ready", "Some"]:
            if "Err" in arms:
                err_e.append((sb, arms["Err"]))
            elif "Ok" in arms:
                err_e.append((sb, other))
    ctx.need(none_e, "Ready(None) arm in MessageStream::poll_next_before")
    ctx.need(err_e, "Ready(Some(Err)) arm in MessageStream::poll_next_before")
    poll_b = {c.b for c in polls}

    def region_facts(e):
        r = cf.reach_e(pb, [e[1]])
        rets = [rv for b, i, rv, ln in mir.ret_values(pb, r)]
        ready = bool(rets) and all(rv[0] == "agg" and rv[2] == POLL and rv[3] == "Ready" for rv in rets) and \
            not [c for c in mir.calls(pb) if c.b in r and c.dest[0] == mir.RET]
        prs = {rv[3] for b, i, pl, rv, ln in mir.assignments(pb) if b in r and rv[0] == "agg" and rv[1] == "adt" and rv[2] == POLLRESULT}
        return r, ready, prs

    for e in none_e:
        r, ready, prs = region_facts(e)
        ok = ready and prs == {"Terminated"} and not (r & poll_b)
        ctx.ob("M-STREAM", "closed-channel-terminates", ok,
               "Ready(None) of the receiver becomes Ready(PollResult::Terminated)" if ok else
               "Ready(None) of the receiver yields %s (ready=%s)" % (sorted(prs), ready), "%s:%d" % (pb.file, mir.term(pb, e[0])[5]))
    dr = mir.derives(pb, roots, through_calls=False)
    for e in err_e:
        r, ready, prs = region_facts(e)
        errs = [rv for b, i, pl, rv, ln in mir.assignments(pb) if b in r and rv[0] == "agg" and rv[2] == RESULT and rv[3] == "Err"
                and set(mir.operand_locals(rv[4][0])) & dr]
        ok = ready and prs == {"Item"} and bool(errs) and not (r & poll_b)
        ctx.ob("M-STREAM", "error-item-is-yielded", ok,
               "Ready(Some(Err(e))) becomes an Item carrying Err(e)" if ok else
               "Ready(Some(Err(e))) yields %s (ready=%s, err passed on=%s)" % (sorted(prs), ready, bool(errs)),
               "%s:%d" % (pb.file, mir.term(pb, e[0])[5]))



def check_eof(ctx, f):
    rm = cf.real_coroutine(ctx, f, READHALF + "::receive_message",
                           lambda b: any(c.is_("recvmsg") for c in mir.calls(b)),
                           "coroutine of the default ReadHalf::receive_message")
    recvs = [c for c in mir.calls(rm) if c.is_("recvmsg") and (c.declared.startswith(READHALF) or READHALF in c.fnargs)]
    ctx.floor("E-EOF", "recvmsg calls in default receive_message", len(recvs), 1)
    recv_b = {c.b for c in recvs}
    der = mir.derives(rm, {c.dest[0] for c in recvs}, through_calls=True)
    ztests = []
    for sb, op, l, r, tt, ft, ln in mir.cmp_switches(rm):
        if op not in ("Eq", "Ne"):
            continue
        kl, kr = mir.resolve_const(rm, l), mir.resolve_const(rm, r)
        var = l if (kr is not None and kr.get("v") == 0) else (r if (kl is not None and kl.get("v") == 0) else None)
        if var is None or cf.operand_type(rm, var) != "usize":
            continue
        vl = mir.root_local(rm, var)
        if vl not in der:
            continue
        ztests.append((sb, tt if op == "Eq" else ft, ft if op == "Eq" else tt, ln))
    ctx.floor("E-EOF", "`count == 0` tests in default receive_message", len(ztests), 1)
    zb = {z[0] for z in ztests}
    ok_rets = {b for b, i, rv, ln in mir.ret_values(rm) if rv[0] == "agg" and rv[2] == RESULT and rv[3] == "Ok"}
    for c in recvs:
        nxt = c.c["t"]
        r = cf.reach_e(rm, [nxt], avoid_blocks=zb)
        bad = []
        if r & recv_b:
            bad.append("another recvmsg")
        if r & ok_rets:
            bad.append("the Ok result")
        ctx.ob("E-EOF", "zero-test-after-read", not bad,
               "after recvmsg the byte count is compared with 0 before anything else is read or returned" if not bad else
               "after recvmsg, %s is reachable without the `== 0` test" % " and ".join(bad), c.where)
    for sb, zt, nz, ln in ztests:
        r = cf.reach_e(rm, [zt])
        bad = []
        if r & recv_b:
            bad.append("reads again")
        if r & ok_rets:
            bad.append("returns Ok")
        rets = [rv for b, i, rv, ln2 in mir.ret_values(rm, r)]
        rcalls = [x for x in mir.calls(rm) if x.b in r and x.dest[0] == mir.RET and not x.dest[1]]
        if not rets and not rcalls:
            bad.append("returns nothing")
        if any(not (rv[0] == "agg" and rv[2] == RESULT and rv[3] == "Err") for rv in rets):
            bad.append("returns a non-Err value")
        ctx.ob("E-EOF", "zero-bytes-is-an-error", not bad,
               "the zero-bytes edge returns Err" if not bad else "the zero-bytes edge " + ", ".join(bad),
               "%s:%d" % (rm.file, ln))


PANIC_CALLS = ("unwrap", "expect", "unwrap_err", "expect_err", "unwrap_unchecked", "panic", "panic_fmt", "panic_display",
               "unreachable_display", "begin_panic", "panic_explicit", "index", "index_mut", "assert_failed",
               "unwrap_failed", "expect_failed", "split_at", "split_at_mut", "swap_remove", "remove", "drain", "copy_from_slice")


def check_panics(ctx, f):
    n = 0
    for root in (READER + "::receive_msg", READER + "::read_socket", READER + "::spawn"):
        fb = f.bodies.get(root)
        ctx.need([fb] if fb else [], "fn " + root)
        for b in f.family(fb):
            live = mir.live_blocks(b)
            for bi, blk in enumerate(b.blocks):
                if bi not in live or blk.get("c"):
                    continue
                t = blk["t"]
                if t[0] == "assert":
                    kind = "assert:" + ":".join(str(x) for x in t[3][:2] if isinstance(x, str))
                    if cf.from_macro(t[7] if len(t) > 7 else "", cf.TRACING):
                        continue
                    n += 1
                    why = PANIC_OK.get((root, kind))
                    ctx.ob("P-READER", "%s:%s" % (root, kind), why is not None,
                           why or "panic-capable check in the reader task", "%s:%d" % (b.file, t[6]))
            for c in mir.calls(b):
                if not c.is_(*PANIC_CALLS):
                    continue
                if c.is_("remove", "drain", "index", "index_mut") and ("HashMap" in c.callee or "hash::map" in c.callee):
                    continue
                if cf.from_macro(c.c.get("x"), cf.TRACING):
                    continue
                n += 1
                kind = "call:" + c.callee.split("::")[-1]
                why = PANIC_OK.get((root, kind))
                ctx.ob("P-READER", "%s:%s" % (root, kind), why is not None,
                       why or "panic-capable call %s in the reader task" % c.callee, c.where)
    ctx.floor("P-READER", "panic-capable constructs seen in the reader's frames (the reviewed overflow check)", n, 1)


def run(ctx):
    ctx.explanation = (
        "Edge-precise CFG rules over the MIR of zbus (K1). Reader task: with a non-Ok read result every iteration over the "
        "locked ConnectionInner.msg_senders map calls broadcast_direct with that result; clear() of the map is dominated by "
        "the loop, precedes every completion of the task, and is followed by no further read. add_match: is_empty() of the "
        "locked msg_senders dominates every channel/subscription operation and its true edge returns Err only. "
        "PendingMethodCall: Pending only under the stream's Pending; Terminated and Err items complete with Ready; None "
        "becomes Err in Future::poll. MessageStream forwards its receiver's poll, maps a closed channel to Terminated and an "
        "Err item to an Item carrying it. receive_message: every recvmsg is followed by a `== 0` test whose zero edge returns Err. "
        "The reader's own frames hold no panic-capable construct beyond the reviewed u64 sequence increment.")
    ctx.not_decided = ("promptness; behaviour of async-broadcast (closed channel ends receivers) and of the transport; panic "
                       "freedom of the callees of the reader task (message parsing: C12/C14, rule matching: C21); write-side "
                       "failures are returned by Connection::send through `?` and not audited here.")
    f = ctx.facts("K1")
    cf.check_ext_enums(ctx, f, [RESULT, POLL, OPTION, POLLRESULT])
    check_reader(ctx, f)
    check_nowait(ctx, f)
    check_add_match(ctx, f)
    check_pending(ctx, f)
    check_stream(ctx, f)
    check_eof(ctx, f)
    check_panics(ctx, f)
