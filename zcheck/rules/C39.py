"""C39 — Dropping or shutting down a connection releases it correctly (DESIGN §5.C39).

"Strong handle" below = `Connection`, `Arc<ConnectionInner>` or any workspace type that (transitively, not
through `Weak`/`WeakConnection`) owns one — computed from the ADT field types (MessageStream, Proxy,
SignalEmitter, PendingMethodCall, ...).  "Held at a suspension point" = in rustc's coroutine layout for that
point (a sound superset of the live locals) and not certainly moved out before, or captured by the future
and not moved out, or captured by a not-yet-started future stored there.

  S-NOCYCLE   no field of `ConnectionInner` is (or owns) a strong handle: the object server, the subscription
              table, the name table and the executor reach the connection only weakly or through erased tasks
  S-SPAWN     every `Executor::spawn` in zbus is one of the classified sites: *resident* tasks (socket reader,
              object-server dispatcher, the two name monitors — all stored inside `ConnectionInner`),
              *transient* tasks (per-call handler, queued RemoveMatch) and the proxy's cache task (owned by a
              proxy, itself a handle); `Task::detach` is used by transient sites only (a resident task dies
              with `ConnectionInner`); helper threads / `spawn_blocking` closures (executor ticker, blocking
              socket calls) capture no strong handle
  W-IDLE      resident tasks hold no strong handle while waiting for input: at every `stream.next().await`
              of the dispatcher / the name monitors and at every suspension point of the reader task
              (`receive_msg`, `read_socket`), nothing held is a strong handle; `SocketReader` owns none
  W-BUSY      while the dispatcher awaits `ObjectServer::dispatch_call` it *does* hold a `Connection`
              (that is what graceful shutdown waits for), obtained from `WeakConnection::upgrade`
  G-LISTEN    `graceful_shutdown`: the listener is created by `listen()` on `ConnectionInner.drop_event`,
              before any release of `self`; the function completes only through awaiting that listener
  G-RELEASE   at the listener's suspension point no strong handle is held any more (`self` was moved out —
              into `drop`); otherwise the shutdown would wait for itself
  D-NOTIFY    `<ConnectionInner as Drop>::drop` calls `notify(usize::MAX)` (every waiter, not a bounded number) on `drop_event`
              on every path
  D-WHO       `drop_event` is used only by construction, `graceful_shutdown`, `Drop::drop` (and derived Debug)

Not decided: that the peer observes EOF (the transport halves are dropped with ConnectionInner / the reader
task — OS behaviour); fairness of the executor; user futures that keep a `Connection` clone.
"""
from .. import mir, awaits as aw
from .. import lib_cflow as cf

META = {
    "technique": "rustc coroutine layouts (held-across-await) + move analysis + ADT ownership closure + who-may-spawn table",
    "level": "Decides that no reference cycle keeps ConnectionInner alive: its fields own no strong handle and each resident "
             "background task holds only weak handles/raw receivers while idle, while an in-flight dispatch does hold a "
             "Connection; that graceful_shutdown listens on drop_event before releasing self and waits with self released; "
             "that ConnectionInner::drop notifies. Does not decide OS-level closing of the transport nor user-held clones.",
}

CONN = "zbus::connection::Connection"
INNER = "zbus::connection::ConnectionInner"
WEAK = "zbus::connection::WeakConnection"
READER = "zbus::connection::socket_reader::SocketReader"
SPAWN = "zbus::abstractions::executor::Executor::<'a>::spawn"

# who may spawn: root fn -> (class, reason)
SPAWN_SITES = {
    READER + "::spawn": ("resident", "socket reader task, stored in ConnectionInner.socket_reader_task"),
    CONN + "::start_object_server": ("resident", "object-server dispatcher, stored in ConnectionInner.object_server_dispatch_task"),
    CONN + "::request_name_with_flags": ("resident", "NameAcquired / NameLost monitors, stored in ConnectionInner.registered_names"),
    CONN + "::queue_remove_match": ("transient", "one RemoveMatch round trip, then ends"),
    "zbus::object_server::ObjectServer::dispatch_method_call_try": ("transient", "one method handler, then ends"),
    "zbus::proxy::PropertiesCache::new": ("proxy-owned", "stored in the proxy (itself a handle) and cancelled with it"),
}
DETACH_OK = {
    CONN + "::queue_remove_match", "zbus::object_server::ObjectServer::dispatch_method_call_try",
    "zbus::abstractions::executor::Task::<T>::detach",
}
DROP_EVENT_USERS = {
    CONN + "::new": "construction",
    CONN + "::graceful_shutdown": "listen",
    "<%s as core::ops::drop::Drop>::drop" % INNER: "notify",
    "<%s as core::fmt::Debug>::fmt" % INNER: "derived Debug",
}


def is_spawn(c):
    return c.is_("Executor::<'a>::spawn", "Executor::<'_>::spawn", "Executor::spawn") and "abstractions::executor" in c.callee


def is_other_spawn(c):
    n = c.callee
    if is_spawn(c):
        return False
    last = n.split("::")[-1]
    if not last.startswith("spawn"):
        return False
    return n.startswith(("std::thread::", "tokio::", "async_executor::", "async_task::", "async_global_executor::", "blocking::")) \
        or "abstractions::executor::Task" in n


def is_next(c):
    n = c.callee + " " + c.declared
    return c.is_("next") and ("StreamExt" in n or "OrderedStreamExt" in n)


def await_name(a):
    """stable short name of what a suspension point awaits (callee name, or the wrapped body)"""
    if a.call is not None:
        return a.call.callee.split("::")[-1]
    o = a.origin
    if o and o[0] == "rv" and o[1][0] == "agg":
        return "body " + str(o[1][2]).split("::")[-1]
    if o and o[0] == "call":
        return o[1].callee.split("::")[-1]
    return "future"


def fmt_held(h):
    return "; ".join("%s: %s" % (d, t[:70]) for d, t in h)


def task_futures(ctx, f, site_body, call):
    """Coroutine bodies that make up the future handed to a spawn call (through Instrumented<..> wrappers,
    Option::map closures and async fn calls)."""
    out = []
    ty = (call.c.get("argtys") or ["", ""])[1] if len(call.args) > 1 else ""
    found, missing = cf.bodies_in_type(f, ty)
    out += [b for b in found if b.kind == "coroutine"]
    if not out:
        o = mir.origin(site_body, call.args[1])
        if o[0] == "call":
            tgt = o[1].callee
            out += cf.fn_coroutines(f, tgt)
    return out, missing


def check_config(ctx, f, tag):
    S = cf.Strong(f)
    check_inflight_strong(ctx, f, tag, S)
    ctx.need([f.adts.get(INNER)] if f.adts.get(INNER) else [], "ADT ConnectionInner")

    # ---------------------------------------------------------------- S-NOCYCLE
    flds = f.adts[INNER]["variants"][0]["fields"]
    ctx.floor("S-NOCYCLE", tag + "fields of ConnectionInner", len(flds), 5)
    for name, ty, vis in flds:
        why = S.holds(ty)
        ctx.ob("S-NOCYCLE", tag + "field:" + name, why is None,
               "ConnectionInner.%s owns no strong handle" % name if why is None else
               "ConnectionInner.%s: %s owns a strong handle through %s (%s)" % (name, ty[:80], why, S.strong.get(why)),
               "%s:%s" % (f.adts[INNER].get("file"), f.adts[INNER].get("line")))
    for adt, what in ((READER, "SocketReader"), ("zbus::object_server::ObjectServer", "ObjectServer"),
                      ("zbus::object_server::node::Node", "object tree Node"), (WEAK, "WeakConnection")):
        ctx.need([f.adts.get(adt)] if f.adts.get(adt) else [], "ADT " + adt)
        ctx.ob("S-NOCYCLE", tag + "weak-only:" + what, adt not in S.strong,
               "%s owns no strong handle" % what if adt not in S.strong else "%s owns a strong handle: %s" % (what, S.strong[adt]),
               "%s:%s" % (f.adts[adt].get("file"), f.adts[adt].get("line")))
    wk = f.adts[WEAK]["variants"][0]["fields"]
    ctx.ob("S-NOCYCLE", tag + "WeakConnection-is-weak", all("Weak<" in t for n, t, v in wk),
           "WeakConnection fields: %s" % [(n, t) for n, t, v in wk], "%s:%s" % (f.adts[WEAK].get("file"), f.adts[WEAK].get("line")))

    # ---------------------------------------------------------------- S-SPAWN
    sites = []
    for b in f.all_bodies("zbus"):
        for c in mir.calls(b):
            if is_spawn(c):
                sites.append((b, c))
    ctx.floor("S-SPAWN", tag + "Executor::spawn call sites in zbus", len(sites), 6)
    resident = []
    for b, c in sites:
        ent = SPAWN_SITES.get(b.root)
        ctx.ob("S-SPAWN", tag + "spawn-in:" + b.root, ent is not None,
               "%s: %s" % ent if ent else "unclassified task spawn (resident tasks must be checked for strong handles)", c.where)
        if ent and ent[0] == "resident":
            resident.append((b, c))
    # other ways of starting concurrent work (helper threads, blocking helpers, raw executor APIs): whatever
    # they capture must not be a strong handle
    n_other = 0
    for b in f.all_bodies("zbus"):
        if b.root.startswith("zbus::abstractions::"):
            continue
        for c in mir.calls(b):
            if not is_other_spawn(c):
                continue
            n_other += 1
            held = []
            unresolved = []
            for ty in (c.c.get("argtys") or []):
                found, missing = cf.bodies_in_type(f, ty)
                unresolved += missing
                if S.holds(ty):
                    held.append(("argument", ty))
                for nb in found:
                    held += cf.strong_captured(f, nb, S)
            ctx.ob("S-SPAWN", tag + "helper-captures-nothing-strong:%s:%s" % (b.root, c.callee.split("::")[-1]),
                   not held and not unresolved,
                   "%s: the closure captures no strong handle" % c.callee if not held and not unresolved else
                   "%s captures %s %s" % (c.callee, fmt_held(held), unresolved), c.where)
    ctx.floor("S-SPAWN", tag + "helper thread / blocking-task sites", n_other, 1)
    for b in f.all_bodies("zbus"):
        for c in mir.calls(b):
            if c.is_("detach") and "executor::Task" in c.callee:
                ctx.ob("S-SPAWN", tag + "detach-in:" + b.root, b.root in DETACH_OK,
                       "transient task detached" if b.root in DETACH_OK else
                       "a task is detached here; resident tasks must stay owned by ConnectionInner", c.where)

    # ---------------------------------------------------------------- W-IDLE / W-BUSY
    n_idle = 0
    seen_tasks = set()
    for b, c in resident:
        cos, missing = task_futures(ctx, f, b, c)
        ctx.ob("W-IDLE", tag + "task-future-resolved:" + b.root, bool(cos) and not missing,
               "future spawned here: %s" % [x.id for x in cos] if cos and not missing else
               "cannot resolve the spawned future (type %s)" % (c.c.get("argtys") or ["", "?"])[1][:100], c.where)
        for co in cos:
            # include wrappers created by #[instrument] and async fns awaited for input
            group = [co] + cf.nested_coroutines(f, co)
            if b.root == READER + "::spawn":
                for x in cf.fn_coroutines(f, READER + "::read_socket"):
                    if x not in group:
                        group.append(x)
            for g in group:
                if g.id in seen_tasks:
                    continue
                seen_tasks.add(g.id)
                cap = cf.strong_captured(f, g, S)
                awts = aw.awaits(f, g)
                if b.root == READER + "::spawn":
                    idle = awts
                    ctx.ob("W-IDLE", tag + "captures:" + g.id, not cap,
                           "captures no strong handle" if not cap else "captures " + fmt_held(cap), g.where)
                else:
                    idle = [a for a in awts if a.call is not None and is_next(a.call)]
                for a in idle:
                    n_idle += 1
                    held = cf.strong_alive_at(f, g, a, S)
                    ctx.ob("W-IDLE", tag + "idle:%s:await(%s)" % (g.id, await_name(a)), not held,
                           "no strong handle held while waiting" if not held else "held while idle: " + fmt_held(held), a.where)
                if b.root != READER + "::spawn" and g is co:
                    ctx.ob("W-IDLE", tag + "waits-on-stream:" + g.id, bool(idle),
                           "the task waits for input on stream.next()" if idle else
                           "no `stream.next().await` found in the resident task", g.where)
    ctx.floor("W-IDLE", tag + "idle suspension points of resident tasks", n_idle, 6)
    ctx.floor("W-IDLE", tag + "resident task spawn sites", len(resident), 4)

    # dispatcher holds a Connection during dispatch
    disp = [g for g in cf.fn_coroutines(f, CONN + "::start_object_server") if mir.calls_to(g, "ObjectServer::dispatch_call")]
    D = ctx.one(disp, "dispatcher coroutine (awaits ObjectServer::dispatch_call)")
    busy = [a for a in aw.awaits(f, D) if a.call is not None and a.call.is_("ObjectServer::dispatch_call")]
    ctx.floor("W-BUSY", tag + "awaits of dispatch_call in the dispatcher", len(busy), 1)
    for a in busy:
        held = [h for h in cf.strong_alive_at(f, D, a, S) if cf.mentions(h[1], CONN)]
        ctx.ob("W-BUSY", tag + "connection-held-during-dispatch", bool(held),
               "held during dispatch: " + fmt_held(held) if held else
               "no Connection is held across the dispatch_call await: shutdown would not wait for the handler", a.where)
    ups = [c for c in mir.calls(D) if c.is_("WeakConnection::upgrade")]
    ctx.ob("W-BUSY", tag + "handle-comes-from-upgrade", bool(ups),
           "the dispatcher obtains its Connection by WeakConnection::upgrade" if ups else
           "the dispatcher never upgrades its weak handle", D.where)

    # ---------------------------------------------------------------- G-LISTEN / G-RELEASE
    gs = [g for g in cf.fn_coroutines(f, CONN + "::graceful_shutdown")]
    G = ctx.one(gs, "coroutine of Connection::graceful_shutdown")
    listens = [c for c in mir.calls(G) if c.is_("listen") and "event_listener" in c.callee]
    ctx.floor("G-LISTEN", tag + "listen() calls in graceful_shutdown", len(listens), 1)
    for c in listens:
        o = mir.origin(G, c.args[0])
        fl = mir.place_fields(o[1]) if o[0] in ("ref", "place") else []
        ctx.ob("G-LISTEN", tag + "listens-on-drop_event", "drop_event" in fl,
               "listener is taken on ConnectionInner.drop_event" if "drop_event" in fl else
               "listener is not taken on drop_event (%s)" % (mir.place_str(G, o[1]) if o[0] in ("ref", "place") else o[0]), c.where)
    # releases of self: whole moves of a Connection-typed local into a call, and Drop::drop of such
    rel = []
    for c in mir.calls(G):
        for i, a in enumerate(c.args):
            if a[0] == "m" and not a[1][1] and cf.mentions(cf.local_type(G, a[1][0]), CONN) and \
                    not cf.local_type(G, a[1][0]).startswith("&"):
                rel.append(c)
    ctx.floor("G-LISTEN", tag + "releases of self in graceful_shutdown", len(rel), 1)
    for c in rel:
        ok = any(mir.block_dominates(G, l.b, c.b) and l.b != c.b for l in listens)
        ctx.ob("G-LISTEN", tag + "listen-before-release:" + c.callee.split("::")[-1], ok,
               "listen() precedes the release of self" if ok else "self is released before the listener exists", c.where)
    law = [a for a in aw.awaits(f, G) if a.call is not None and a.call.is_("listen")]
    ctx.floor("G-LISTEN", tag + "awaits of the drop listener", len(law), 1)
    lawb = set()
    for a in law:
        for c in mir.calls(G):
            if c.c["sp"] == a.sp and c.is_("into_future"):
                lawb.add(c.b)
        held = cf.strong_alive_at(f, G, a, S)
        ctx.ob("G-RELEASE", tag + "nothing-held-while-waiting", not held,
               "self has been moved out before waiting for the drop notification" if not held else
               "graceful_shutdown waits while still holding " + fmt_held(held), a.where)
    leak = set(mir.exits(G)) & cf.reach_e(G, [0], avoid_blocks=lawb)
    ctx.ob("G-LISTEN", tag + "completes-only-after-notification", bool(lawb) and not leak,
           "every completion of graceful_shutdown passes the await of the drop listener" if lawb and not leak else
           "graceful_shutdown can complete without awaiting the drop listener", G.where)

    # ---------------------------------------------------------------- D-NOTIFY / D-WHO
    dr = ctx.one(f.find(name="drop", adt=INNER, trait="core::ops::drop::Drop"), "<ConnectionInner as Drop>::drop")
    nots = []
    for c in mir.calls(dr):
        if c.is_("notify") and "event_listener" in c.callee:
            o = mir.origin(dr, c.args[0])
            if o[0] in ("ref", "place") and "drop_event" in mir.place_fields(o[1]):
                nots.append(c)
    ctx.floor("D-NOTIFY", tag + "notify() on drop_event in ConnectionInner::drop", len(nots), 1)
    nb = {c.b for c in nots}
    skip = set(mir.exits(dr)) & cf.reach_e(dr, [0], avoid_blocks=nb)
    ctx.ob("D-NOTIFY", tag + "notify-on-every-path", bool(nb) and not skip,
           "drop() notifies drop_event on every path" if nb and not skip else "drop() can return without notifying", dr.where)
    for c in nots:
        k = mir.resolve_const(dr, c.args[1]) if len(c.args) > 1 else None
        v = k.get("v") if k else None
        ctx.ob("D-NOTIFY", tag + "notify-count-nonzero", isinstance(v, int) and v > 0,
               "notify(%s)" % v, c.where)
        # every clone may be awaiting graceful_shutdown(): the number of listeners is unbounded, only "all" wakes them
        # all (added after seeded change C39b: notify(1) left every waiter but the first pending forever)
        ctx.ob("D-NOTIFY", tag + "notify-wakes-every-waiter", isinstance(v, int) and v >= 2 ** 64 - 1,
               "notify(usize::MAX): every pending graceful_shutdown() is woken" if isinstance(v, int) and v >= 2 ** 64 - 1 else
               "notify(%s): graceful_shutdown() can be awaited on any number of clones; a bounded count leaves the others "
               "pending forever" % v, c.where)
    users = {}
    for b in f.all_bodies("zbus"):
        hit = None
        for bi, i, pl, rv, ln in mir.assignments(b):
            places = [pl] + [mir.op_place(op) for op in mir.rvalue_operands(rv) if mir.op_place(op)]
            for p in places:
                for pr in p[1]:
                    if isinstance(pr, list) and pr[0] == "." and pr[2] == "drop_event" and pr[3] == INNER:
                        hit = ln
            if rv[0] == "agg" and rv[1] == "adt" and rv[2] == INNER:
                hit = ln
        if hit is not None:
            users[b.root] = "%s:%d" % (b.file, hit)
    ctx.floor("D-WHO", tag + "users of ConnectionInner.drop_event", len(users), 3)
    for r, where in sorted(users.items()):
        ctx.ob("D-WHO", tag + "drop_event-user:" + r, r in DROP_EVENT_USERS,
               DROP_EVENT_USERS.get(r, "unexpected user of drop_event"), where)


def check_inflight_strong(ctx, f, tag, S):
    """W-INFLIGHT (added after seeded change C39): a method call that the dispatcher has handed to its own task is
    in flight from the moment of the spawn; `graceful_shutdown` waits for the last strong handle, so that task must
    own one from the start (captured), not obtain it by upgrading a weak handle on its first poll — otherwise a
    shutdown that starts between the spawn and the first poll completes with the call unanswered."""
    TRY = "zbus::object_server::ObjectServer::dispatch_method_call_try"
    fam = [b for b in f.all_bodies("zbus") if b.root == TRY]
    ctx.need(fam, "ObjectServer::dispatch_method_call_try")
    n = 0
    for b in fam:
        for c in mir.calls(b):
            if not (c.is_("spawn") and "Executor" in c.callee):
                continue
            # the spawned future: a coroutine aggregate reaching the call's arguments (possibly wrapped by .instrument())
            cors = []
            work, seen = [a for a in c.args], set()
            while work:
                op = work.pop()
                o = mir.origin(b, op)
                key = repr(o)[:160]
                if key in seen:
                    continue
                seen.add(key)
                if o[0] == "rv" and o[1][0] == "agg" and o[1][1] in ("coroutine", "closure"):
                    cors.append(o[1])
                elif o[0] == "call":
                    work.extend(o[1].args)
            for agg in cors:
                n += 1
                tys = []
                for op in agg[4]:
                    l = mir.op_local(op)
                    if l is not None:
                        tys.append(b.locals[l][0])
                strong = [t for t in tys if S.holds(t) is not None]
                ctx.ob("W-INFLIGHT", tag + "dispatch_method_call_try:spawned-handler-owns-connection", bool(strong),
                       "the per-call handler task captures %s" % strong[0][:60] if strong else
                       "the per-call handler task captures no strong connection handle (captures: %s): a dispatched call does not keep "
                       "the connection alive until it is answered" % [t[:40] for t in tys], c.where)
    ctx.floor("W-INFLIGHT", tag + "per-call handler tasks spawned by dispatch_method_call_try", n, 1)


def run(ctx):
    ctx.explanation = (
        "Ownership closure over ADT field types: ConnectionInner, SocketReader, ObjectServer and the object tree own no strong "
        "connection handle. Every Executor::spawn site is classified; for the resident tasks (reader, dispatcher, two name "
        "monitors) rustc's coroutine layouts plus a move analysis show that nothing held at their idle suspension points "
        "(and nothing they capture) is a strong handle, while the dispatcher does hold an upgraded Connection across "
        "dispatch_call. graceful_shutdown: listen() on drop_event dominates the release of self, the listener await is on every "
        "path to completion and nothing strong is held across it. ConnectionInner::drop notifies drop_event with a non-zero "
        "count on every path; drop_event has no other users.")
    ctx.not_decided = ("that the peer observes the transport closing (OS), executor scheduling, handles kept by user code or "
                       "by user interface implementations (type-erased).")
    f = ctx.facts("K1")
    check_config(ctx, f, "")
    if ctx.tier == "thorough":
        f3 = ctx.facts("K3")
        check_config(ctx, f3, "K3:")
