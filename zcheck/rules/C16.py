"""C16 — The server-side SASL handshake authenticates exactly the right peers (DESIGN §5.C16).

All rules read rustc's MIR of zbus (K1, `p2p`).  "Under X" means: on every feasible path to the site the
`match`/`if` edges taken leave X as the only possible value (variant-set dataflow `lib_hs.VarFacts`, which
forgets a fact at every re-assignment and at every call that could write through a `&mut`).

  STEP      typestate writers: every write of `Server.step` (field assignment or `Server{..}` aggregate)
            stores a literal variant, from the confirmed writer only and under its condition:
            Done <- finalize under Command::Begin; WaitingForBegin <- auth_ok after the OK line was
            written successfully; WaitingForData(m) <- handle_auth under AUTH with no initial response,
            matching mechanism, m = the configured mechanism, after DATA was written; WaitingForAuth <-
            Server::new / rejected_error.  No `&mut self.step` exists.
  DISPATCH  next_step calls handle_auth / handle_auth_data(payload of the state) / finalize only under
            the matching state and returns Ok(true) only under Done; the three handlers have no other caller
  PERFORM   <Server as Handshake>::perform builds `Authenticated` only where the value returned by
            next_step is `true`; `Authenticated` is built by the two `perform` bodies only
  HELPERS   auth_ok writes `OK <self.guid>`; rejected_error writes REJECTED and unsupported_command_error
            writes ERROR on every non-error path
  ARMS      decision table of the three handlers against the SASL server state machine (table below):
            (must) for every command variant every path from the read to a return passes one of the
            replies allowed for (state, command) or propagates an I/O error with `?`;
            (may)  every reply / state change happens only under commands for which the table allows it
  MECH      in handle_auth the DATA request, the state change, auth_ok and check_external_auth happen only
            where the requested mechanism compared equal to the configured one; the unequal edge always
            passes rejected_error
  AUTH-OK   every call of auth_ok is under `configured mechanism == Anonymous`, or on the true edge of the
            credential comparison of CRED, or (empty identity: the command's optional payload is None) where
            `client_uid` is known to be Some; no caller outside the confirmed three functions
  CRED      check_external_auth: the decision is `client_uid` is Some and equals the number parsed from the
            identity the client sent (accepted idioms: map(|u| u == uid).unwrap_or(false), map_or(false,..),
            is_some_and(..), == Some(uid)); the identity handed to it is the payload of AUTH / DATA
  UID       `Server.client_uid` is written only by Server::new from its parameter; Server::new is called only by
            Authenticated::server with its own parameter; every caller of Authenticated::server passes
            `peer_credentials().await?.unix_user_id()` of the socket it hands over
  FD        finalize enables fd passing and writes AGREE_UNIX_FD only under NEGOTIATE_UNIX_FD and only
            where the transport said it can pass fds
  PARSE     a line that does not parse (unknown command, unknown mechanism name, bad hex) must be
            answered: violated when the parse error leaves read_commands as `Err` *and* the handler
            forwards the `Err` of read_command without writing ERROR/REJECTED
  READ-N    Common::read_commands returns Ok only through the `received == n_commands` test, one push per
            count (premise of the `unwrap` in read_command)
  WIRE      keyword tables: Command::from_str / AuthMechanism::from_str map exactly the specification's
            keywords to their variants, and Display / as_str write each variant with its own keyword
  PANIC     R-PANIC over the handshake modules (server, common, command, auth_mechanism): every overflow /
            bounds assert, unwrap/expect, slice index, drain and explicit panic is discharged by a recognised
            dominating guard or by a reviewed entry of the table below (keyed by function + construct +
            provenance shape, no local names)

Not decided: behaviour of the transport (`recvmsg`/`sendmsg` return values), the hex and uuid crates,
scheduling.  CRED accepts only the listed idioms; another equivalent spelling is reported (fail closed).
"""
from .. import mir
from .. import lib_hs as hs

META = {
    "technique": "MIR variant-set dataflow + decision-table / typestate / who-may-write rules + scoped panic audit",
    "level": ("Structural necessary conditions of the server SASL state machine decided on the type-checked MIR of every "
              "handler: who writes each state and under which command, which reply every (state, command) pair gets, "
              "that OK is only sent for ANONYMOUS or after the credential comparison, and that no panic-capable construct "
              "in the handshake modules is unguarded. Transport behaviour and third-party crates are not analysed."),
}

HS = "zbus::connection::handshake::"
SERVER = HS + "server::Server"
STEP = HS + "server::ServerHandshakeStep"
CMD = HS + "command::Command"
MECH = HS + "auth_mechanism::AuthMechanism"
COMMON = HS + "common::Common"
AUTHD = HS + "Authenticated"

# SASL server state machine (D-Bus specification, "Authentication state diagrams", server side, as stated
# by the property: unknown/misplaced -> ERROR, CANCEL/ERROR -> REJECTED, BEGIN only after OK).
# handler -> command variant -> replies allowed.  "*" = every other variant.
FSM = {
    "handle_auth": {
        "Auth": {"REJECTED", "write:Data", "auth_ok", "check_external"},
        "Cancel": {"REJECTED"}, "Error": {"REJECTED"}, "*": {"ERROR"},
    },
    "handle_auth_data": {
        "Data": {"auth_ok", "check_external", "REJECTED"},
        "Cancel": {"ERROR", "REJECTED"}, "Error": {"ERROR", "REJECTED"}, "*": {"ERROR"},
    },
    "finalize": {
        "Begin": {"step:Done"},
        "Cancel": {"REJECTED"}, "Error": {"REJECTED"},
        "NegotiateUnixFD": {"write:AgreeUnixFD", "write:Error", "ERROR"}, "*": {"ERROR"},
    },
}
# state changes allowed in addition to the replies (may-table only)
FSM_EXTRA = {"handle_auth": {"Auth": {"step:WaitingForData"}}}
STATE_OF = {"handle_auth": "WaitingForAuth", "handle_auth_data": "WaitingForData", "finalize": "WaitingForBegin"}

def W(body, line):
    return "%s:%d" % (body.file, line)


def short(i):
    return i.replace(HS, "")


def fn(ctx, f, name, adt=SERVER, trait=""):
    return ctx.one(f.find(name=name, adt=adt, trait=trait), "%s::%s" % (short(adt), name))


def code(ctx, f, root, pred, what):
    return ctx.one(hs.code_bodies(f, root.id, pred), "code body of %s (%s)" % (short(root.id), what))


def field_write(pl, owner, field):
    return bool(pl[1]) and isinstance(pl[1][-1], list) and pl[1][-1][0] == "." and pl[1][-1][2] == field and pl[1][-1][3] == owner


def step_variant(body, rv):
    """variant literally stored by an rvalue / operand of type ServerHandshakeStep, with its aggregate"""
    if rv[0] == "agg":
        return (rv[3], rv) if rv[2] == STEP else (None, None)
    op = rv[1] if rv[0] == "use" else rv
    if op[0] not in ("c", "m", "k"):
        return None, None
    a = hs.agg_of(body, op)
    if a is not None and a[2] == STEP:
        return a[3], a
    return None, None


def effects(body):
    """reply / state-change sites of a handler body: [(label, block, where)]"""
    out = []
    for c in mir.calls(body):
        n = c.callee
        if n == SERVER + "::auth_ok":
            out.append(("auth_ok", c.b, c.where, c))
        elif n == SERVER + "::check_external_auth":
            out.append(("check_external", c.b, c.where, c))
        elif n == SERVER + "::rejected_error":
            out.append(("REJECTED", c.b, c.where, c))
        elif n == SERVER + "::unsupported_command_error":
            out.append(("ERROR", c.b, c.where, c))
        elif n == COMMON + "::write_command":
            a = hs.agg_of(body, c.args[1]) if len(c.args) > 1 else None
            out.append(("write:" + (a[3] if a is not None and a[2] == CMD else "?"), c.b, c.where, c))
        elif n == COMMON + "::write_commands":
            out.append(("write:?", c.b, c.where, c))
    for b, i, pl, rv, ln in mir.assignments(body):
        if field_write(pl, SERVER, "step"):
            v, _ = step_variant(body, rv)
            out.append(("step:" + (v or "?"), b, W(body, ln), None))
    return out


def residual_blocks(body):
    return {c.b for c in mir.calls(body) if c.is_("from_residual")}


def command_key(ctx, rule, hname, body, vf):
    """the canonical place of the command read by the handler: unique Command-typed match scrutinee,
    and it is the Ok payload of `read_command().await?`"""
    keys = vf.enum_keys(CMD)
    rcs = [c for c in mir.calls(body) if c.callee == COMMON + "::read_command"]
    ctx.ob(rule, hname + ":one-read", len(rcs) == 1, "%d read_command call(s) in the handler" % len(rcs), body.where)
    if len(rcs) != 1 or len(keys) != 1:
        ctx.ob(rule, hname + ":one-command-scrutinee", len(keys) == 1,
               "%d distinct Command values are matched on" % len(keys), body.where)
        return None, None, None
    rc = rcs[0]
    br = hs.try_of(body, rc)
    key = list(keys)[0]
    ok = br is not None and key[0] == br.dest[0] and key[1][:2] == (("as", "Continue"), (".", 0))
    ctx.ob(rule, hname + ":scrutinee-is-read-result", ok,
           "the matched command is the Ok value of read_command().await?", rc.where)
    if not ok:
        return None, None, None
    return key, rc, br


def variants_of(f, adt):
    return [v["name"] for v in f.adts[adt]["variants"]]


def row(table, v):
    return table.get(v, table["*"])


# =========================================================================================== rules
def rule_arms(ctx, f, handlers):
    cmd_variants = variants_of(f, CMD)
    out = {}
    for hname, (root, body, vf) in handlers.items():
        key, rc, br = command_key(ctx, "ARMS", hname, body, vf)
        out[hname] = (key, rc, br)
        if key is None:
            continue
        effs = effects(body)
        resid = residual_blocks(body)
        rets = set(mir.exits(body))
        table = FSM[hname]
        extra = FSM_EXTRA.get(hname, {})
        ctx.floor("ARMS", hname + ": reply sites", len(effs), 3)
        # (must) per variant
        for v in cmd_variants:
            allowed = row(table, v)
            within = vf.blocks_where(key, v)
            stop = {b for (lab, b, w, c) in effs if lab in allowed} | resid
            seen = vf.reach([br.b], avoid=stop, within=within)
            silent = sorted(seen & rets)
            ctx.ob("ARMS", "%s:%s:must-reply" % (hname, v), not silent,
                   "in state %s a %s command always gets one of %s (or an I/O error is propagated)" % (STATE_OF[hname], v, sorted(allowed))
                   if not silent else
                   "in state %s a %s command can reach the end of %s without any of %s" % (STATE_OF[hname], v, hname, sorted(allowed)),
                   rc.where)
        # (may) per site
        for lab, b, w, c in effs:
            poss = vf.possible(b, key)
            if poss is None:
                poss = frozenset(cmd_variants)
            bad = sorted(v for v in poss if lab not in row(table, v) and lab not in extra.get(v, ()))
            ctx.ob("ARMS", "%s:%s:only-under-allowed-commands" % (hname, lab), not bad,
                   "%s happens only under %s" % (lab, sorted(poss)) if not bad else
                   "%s can happen for command(s) %s, which the state table does not allow in state %s" % (lab, bad, STATE_OF[hname]), w)
    return out


def mech_source(f, body, key, handle_auth_data_root):
    """what a MECH-typed canonical place is: 'configured' (result of Common::mechanism()),
    'param' (the `mech` parameter of handle_auth_data) or None"""
    l, proj = key
    if not hs.is_arg(body, l):
        d = mir.single_def(body, l)
        if d is not None and d[0] == "call" and d[1].callee == COMMON + "::mechanism" and not proj:
            return "configured"
        return None
    src_body, pl = hs.upvar_source(f, body, [l, [[".", p[1], "", "upvar:", ""] if p != "*" and p[0] == "." else p for p in proj]])
    if pl is not None and src_body.id == handle_auth_data_root.id and pl[0] == 2 and not pl[1]:
        return "param"
    return None


def mech_keys(f, body, vf, had_root):
    out = {}
    for k in vf.enum_keys(MECH):
        s = mech_source(f, body, k, had_root)
        if s:
            out[k] = s
    return out


def describe_site(f, body, vf, b, cmdkey, mkeys):
    st = vf.state_at_term(b) or {}
    parts = []
    for k, src in mkeys.items():
        if k in st:
            parts.append("mech=" + "|".join(sorted(st[k])))
    if cmdkey is not None:
        if cmdkey in st:
            parts.append("cmd=" + "|".join(sorted(st[cmdkey])))
        for k in sorted(st, key=str):
            if k[0] == cmdkey[0] and len(k[1]) > len(cmdkey[1]) and k[1][:len(cmdkey[1])] == cmdkey[1]:
                tail = ".".join(str(x[1]) for x in k[1][len(cmdkey[1]):])
                parts.append("%s=%s" % (tail, "|".join(sorted(st[k]))))
    return ",".join(parts) or "unconditional"


def payload_place(body, op):
    """canonical place an operand's bytes come from, looking through deref/as_ref style calls"""
    cur = op
    for _ in range(6):
        o = mir.origin(body, cur)
        if o[0] == "call" and o[1].is_("deref", "as_ref", "as_slice", "as_bytes", "borrow", "as_deref") and o[1].args:
            cur = o[1].args[0]
            continue
        if o[0] in ("place", "ref"):
            return hs.canon(body, o[1])
        return None
    return None


def rule_mech(ctx, f, handlers, cmdinfo):
    """MECH: mechanism comparison in handle_auth"""
    root, body, vf = handlers["handle_auth"]
    key, rc, br = cmdinfo["handle_auth"]
    if key is None:
        return None
    effs = effects(body)
    cmps = []
    for c in mir.calls(body):
        if not (c.is_("eq", "ne") and "PartialEq" in (c.callee + c.declared) and len(c.args) == 2):
            continue
        if MECH not in c.fnargs:
            continue
        sides = []
        for a in c.args:
            p = payload_place(body, a)
            kind = None
            if p is not None:
                k = hs.pkey(p)
                if k[0] == key[0] and k[1][:len(key[1])] == key[1] and ("as", "Auth") in k[1] and (".", 0) in k[1][len(key[1]):]:
                    kind = "requested"
                else:
                    # Some(mech) temporary or mech itself
                    d = mir.single_def(body, p[0]) if not hs.is_arg(body, p[0]) else None
                    if d is not None and d[0] == "call" and d[1].callee == COMMON + "::mechanism":
                        kind = "configured"
                    elif d is not None and d[0] == "assign" and d[4][0] == "agg" and d[4][3] == "Some" and d[4][4]:
                        o = mir.origin(body, d[4][4][0])
                        if o[0] == "call" and o[1].callee == COMMON + "::mechanism":
                            kind = "configured"
            sides.append(kind)
        if sorted(x or "" for x in sides) == ["configured", "requested"]:
            cmps.append(c)
    ctx.floor("MECH", "comparison of the requested with the configured mechanism in handle_auth", len(cmps), 1)
    if not cmps:
        return None
    guarded = [e for e in effs if e[0] in ("write:Data", "auth_ok", "check_external", "step:WaitingForData")]
    ctx.floor("MECH", "mechanism-dependent sites in handle_auth", len(guarded), 3)

    def equal_at(b):
        st = vf.state_at_term(b) or {}
        for c in cmps:
            got = st.get((c.dest[0], ()))
            want = "true" if c.is_("eq") else "false"
            if got == frozenset([want]):
                return True
        return False
    for lab, b, w, c in guarded:
        ctx.ob("MECH", "handle_auth:%s:only-if-mechanism-matches" % lab, equal_at(b),
               "%s only where requested mechanism == configured mechanism" % lab, w)
    # mismatch edge must be rejected
    rej = {b for (lab, b, w, c) in effs if lab == "REJECTED"} | residual_blocks(body)
    rets = set(mir.exits(body))
    for c in cmps:
        ck = (c.dest[0], ())
        neq = "false" if c.is_("eq") else "true"
        within = vf.blocks_where(ck, neq) & vf.blocks_where(key, "Auth")
        # the blocks the unequal edge of the branch on the comparison result leads to
        sw = [sb for sb, t in mir.switches(body) if mir.op_place(t[1]) is not None and hs.ckey(body, mir.op_place(t[1])) == ck]
        ok = bool(sw)
        for sb in sw:
            t = mir.term(body, sb)
            tt, ft = mir.bool_switch_edges(t)
            edge = ft if c.is_("eq") else tt
            seen = vf.reach([edge], avoid=rej, within=within)
            if seen & rets:
                ok = False
        ctx.ob("MECH", "handle_auth:mismatch-is-rejected", ok,
               "a mechanism other than the configured one always reaches rejected_error", c.where)
    return cmps


def closure_is_eq(f, body, closure_op):
    """closure |u| u == captured: returns the operand captured (in `body`) or None"""
    a = hs.agg_of(body, closure_op)
    if a is None or a[1] != "closure":
        return None
    cb = f.bodies.get(a[2])
    if cb is None:
        return None
    rets = [(b, i, rv) for b, i, pl, rv, ln in mir.assignments(cb) if pl[0] == mir.RET and not pl[1]]
    if len(rets) != 1 or len(mir.calls(cb)) != 0:
        return None
    rv = rets[0][2]
    if rv[0] == "use":
        o = mir.origin(cb, rv[1])
        if o[0] != "rv":
            return None
        rv = o[1]
    if rv[0] != "bin" or rv[1] != "Eq":
        return None
    sides = []
    for op in (rv[2], rv[3]):
        p = mir.op_place(op)
        if p is None:
            return None
        cp = hs.canon(cb, p)
        if cp[0] == 2 and not cp[1]:
            sides.append(("param", None))
        elif hs.upvar_field(cp) is not None:
            sides.append(("capture", hs.upvar_field(cp)[0]))
        else:
            return None
    kinds = sorted(s[0] for s in sides)
    if kinds != ["capture", "param"]:
        return None
    idx = [s[1] for s in sides if s[0] == "capture"][0]
    ops = a[4]
    return ops[idx] if idx < len(ops) else None


def is_client_uid(body, f, op):
    p = mir.op_place(op)
    if p is None:
        return False
    o = mir.origin(body, op)
    if o[0] == "call" and o[1].is_("as_ref", "clone", "copied", "cloned", "as_deref") and o[1].args:
        return is_client_uid(body, f, o[1].args[0])
    if o[0] in ("place", "ref"):
        sb, pl = hs.upvar_source(f, body, o[1])
        cp = hs.canon(body, o[1])
        return hs.place_has_field(cp, "client_uid", SERVER) or hs.place_has_field(cp, "client_sid", SERVER)
    return False


def cred_predicate(f, body, op):
    """Is the bool operand `client_uid is Some(x) and x == uid`?  -> (True, uid operand) / (False, why)"""
    o = mir.origin(body, op)
    if o[0] != "call":
        return False, "decision is not the result of a recognised Option combinator (%s)" % o[0]
    c = o[1]
    n = c.callee
    if n == "core::option::Option::<T>::unwrap_or" and len(c.args) == 2:
        if hs.const_arg(body, c.args[1]) is not False:
            return False, "unwrap_or default is not `false`: unknown credentials would be accepted"
        o2 = mir.origin(body, c.args[0])
        if o2[0] == "call" and o2[1].callee == "core::option::Option::<T>::map" and len(o2[1].args) == 2:
            m = o2[1]
            if not is_client_uid(body, f, m.args[0]):
                return False, "the mapped Option is not Server.client_uid"
            cap = closure_is_eq(f, body, m.args[1])
            if cap is None:
                return False, "the closure is not `|u| u == <claimed id>`"
            return True, cap
        return False, "unwrap_or is not applied to client_uid.map(..)"
    if n in ("core::option::Option::<T>::map_or", "core::option::Option::<T>::is_some_and"):
        if n.endswith("map_or"):
            if len(c.args) != 3 or hs.const_arg(body, c.args[1]) is not False:
                return False, "map_or default is not `false`"
            clo = c.args[2]
        else:
            clo = c.args[1]
        if not is_client_uid(body, f, c.args[0]):
            return False, "the Option tested is not Server.client_uid"
        cap = closure_is_eq(f, body, clo)
        if cap is None:
            return False, "the closure is not `|u| u == <claimed id>`"
        return True, cap
    if c.is_("eq") and "PartialEq" in (c.callee + c.declared) and "core::option::Option<" in c.fnargs and len(c.args) == 2:
        for x, y in ((c.args[0], c.args[1]), (c.args[1], c.args[0])):
            if is_client_uid(body, f, x):
                oy = mir.origin(body, y)
                if oy[0] in ("ref", "place"):
                    d = mir.single_def(body, oy[1][0])
                    if d is not None and d[0] == "assign" and d[4][0] == "agg" and d[4][3] == "Some" and not oy[1][1]:
                        return True, d[4][4][0]
                if oy[0] == "rv" and oy[1][0] == "agg" and oy[1][3] == "Some":
                    return True, oy[1][4][0]
        return False, "comparison is not client_uid == Some(<claimed id>)"
    return False, "unrecognised decision expression (%s)" % n


def identity_seeds(f, body, owner_root):
    """locals of `body` holding the identity parameter (arg 2) of the enclosing fn `owner_root`"""
    seeds = set()
    for b2, i2, pl2, rv2, ln2 in mir.assignments(body):
        for op in mir.rvalue_operands(rv2):
            p = mir.op_place(op)
            if p is not None and hs.upvar_field(p) is not None:
                sb, sp = hs.upvar_source(f, body, p)
                if sp is not None and sb.id == owner_root.id and sp[0] == 2:
                    seeds.add(pl2[0])
    if body.id == owner_root.id:
        seeds.add(2)
    return seeds


def uid_equal_evidence(f, body, st, id_locals):
    """(True, '') when the facts `st` say that `client_uid == Some(<number parsed from the identity>)`
    evaluated to true; id_locals = locals from which the claimed identity must derive"""
    why = "not on the true edge of a recognised credential comparison"
    for k, vals in st.items():
        if vals != frozenset(["true"]) or k[1]:
            continue
        ok, info = cred_predicate(f, body, ["c", [k[0], []]])
        if not ok:
            if "recognised" not in info:
                why = info
            continue
        der = mir.derives(body, set(id_locals))
        capl = mir.operand_locals(info)
        if not (capl and all(l in der for l in capl)):
            why = "the value compared with client_uid does not derive from the identity sent by the client"
            continue
        return True, ""
    return False, why


def known_evidence(f, body, st):
    """the facts `st` say that Server.client_uid is Some"""
    for c in mir.calls(body):
        if c.is_("is_some", "is_none") and "Option" in c.callee and c.args and is_client_uid(body, f, c.args[0]):
            want = "true" if c.is_("is_some") else "false"
            if st.get((c.dest[0], ())) == frozenset([want]):
                return True
    for sb, t in mir.switches(body):
        sc = mir.switch_scrutinee(body, sb)
        if sc[0] == "discr" and sc[2] == "core::option::Option":
            cp = hs.canon(body, sc[1])
            sbody, sp = hs.upvar_source(f, body, sc[1])
            if hs.place_has_field(cp, "client_uid", SERVER) or (sp is not None and hs.place_has_field(sp, "client_uid", SERVER)):
                if st.get(hs.pkey(cp)) == frozenset(["Some"]):
                    return True
    return False


def empty_identity_evidence(st, cmdkey):
    """the facts `st` say that the command's optional payload is None (empty identity)"""
    if cmdkey is None:
        return False
    for k, vals in st.items():
        if k[0] == cmdkey[0] and len(k[1]) > len(cmdkey[1]) and k[1][:len(cmdkey[1])] == cmdkey[1] and vals == frozenset(["None"]):
            return True
    return False


def rule_cred(ctx, f, cea_root):
    body = code(ctx, f, cea_root, hs.has_call("auth_ok"), "calls auth_ok")
    vf = hs.vfacts(f, body)
    oks = [c for c in mir.calls(body) if c.callee == SERVER + "::auth_ok"]
    ctx.floor("CRED", "auth_ok call in check_external_auth", len(oks), 1)
    seeds = identity_seeds(f, body, cea_root)
    for c in oks:
        found, why = True, ""
        for st in vf.states_at_term(c.b):
            ok1, why1 = uid_equal_evidence(f, body, st, seeds)
            if not ok1:
                found, why = False, why1
        ctx.ob("CRED", "check_external_auth:auth_ok-only-if-uid-known-and-equal", found,
               "auth_ok is reached only where client_uid is Some and equals the id parsed from the client's identity" if found else why,
               c.where)
    # the other edge rejects
    effs = effects(body)
    rej = {b for (lab, b, w, c) in effs if lab == "REJECTED"} | residual_blocks(body)
    okb = {c.b for c in oks}
    seen = vf.reach([0], avoid=rej | okb)
    silent = seen & set(mir.exits(body))
    ctx.ob("CRED", "check_external_auth:else-rejected", not silent,
           "every path that does not authenticate writes REJECTED (or propagates an error)", body.where)
    return body


def rule_auth_ok(ctx, f, handlers, cmdinfo, roots):
    had_root = roots["handle_auth_data"]
    n = 0
    vfs = {}
    expected = {roots["check_external_auth"].id, roots["handle_auth"].id, roots["handle_auth_data"].id}
    for b in f.all_bodies("zbus"):
        for c in mir.calls(b):
            if c.callee != SERVER + "::auth_ok" and c.declared != SERVER + "::auth_ok":
                continue
            n += 1
            root = b.root
            rname = short(root)
            if root not in expected:
                ctx.ob("AUTH-OK", "auth_ok-site:%s:unexpected-caller" % rname, False,
                       "auth_ok called from a function outside the confirmed set", c.where)
            hname = [h for h in ("handle_auth", "handle_auth_data") if roots[h].id == root and handlers[h][1].id == b.id]
            if hname:
                _, body, vf = handlers[hname[0]]
                cmdkey = cmdinfo[hname[0]][0]
            else:
                body = b
                if b.id not in vfs:
                    vfs[b.id] = hs.vfacts(f, b)
                vf = vfs[b.id]
                cmdkey = None
            mk = mech_keys(f, body, vf, had_root)
            st = vf.state_at_term(c.b) or {}
            desc = describe_site(f, body, vf, c.b, cmdkey, mk)
            owner = f.bodies.get(root)
            if cmdkey is not None:
                seeds = {cmdkey[0]}      # inside a handler the identity is (part of) the command that was read
            else:
                seeds = identity_seeds(f, body, owner) if owner is not None else set()
            # every combination of (mechanism, command) values under which the site is reached needs a reason
            reasons = set()
            for pst in vf.states_at_term(c.b):
                if any(pst.get(k) == frozenset(["Anonymous"]) for k in mk):
                    reasons.add("under `configured mechanism == Anonymous`")
                elif uid_equal_evidence(f, body, pst, seeds)[0]:
                    reasons.add("where client_uid is Some and equals the claimed identity")
                elif known_evidence(f, body, pst) and empty_identity_evidence(pst, cmdkey):
                    reasons.add("for an empty identity where client_uid is known (Some)")
                else:
                    reasons.add(None)
            reason = None if (None in reasons or not reasons) else "OK is sent " + " / ".join(sorted(reasons))
            mechs = "|".join(sorted(set().union(*[st.get(k, frozenset(["?"])) for k in mk]))) if mk else "not tested here"
            ctx.ob("AUTH-OK", "auth_ok-site:%s[%s]:anonymous-or-credential-checked" % (rname, desc), reason is not None,
                   reason or ("OK is sent although the mechanism may be %s and neither `client_uid == claimed id` nor "
                              "`client_uid is known` (for an empty identity) guards it" % mechs), c.where)
    ctx.floor("AUTH-OK", "call sites of Server::auth_ok", n, 3)
    # identity handed to check_external_auth is the client's payload
    for hname, variant, fld in (("handle_auth", "Auth", 1), ("handle_auth_data", "Data", 0)):
        _, body, vf = handlers[hname]
        key = cmdinfo[hname][0]
        if key is None:
            continue
        for c in mir.calls(body):
            if c.callee != SERVER + "::check_external_auth":
                continue
            p = payload_place(body, c.args[1]) if len(c.args) > 1 else None
            ok = False
            if p is not None:
                k = hs.pkey(p)
                want = key[1] + (("as", variant), (".", fld), ("as", "Some"), (".", 0))
                ok = k[0] == key[0] and k[1][:len(want)] == want
            ctx.ob("CRED", "%s:identity-is-%s-payload" % (hname, variant.upper()), ok,
                   "the identity checked is the payload of the client's %s command" % variant.upper(), c.where)


def rule_uid(ctx, f, roots):
    """UID: where Server.client_uid comes from"""
    ws = [w for w in hs.writes_of_field(f, SERVER, "client_uid")
          if "core::fmt::Debug" not in w[0].root and "core::clone::Clone" not in w[0].root]
    ctx.floor("UID", "writes of Server.client_uid", len(ws), 1)
    new = roots["new"]
    argk = None
    for wb, b, i, kind, rv, ln in ws:
        ok = wb.root == new.id and kind == "agg"
        k = None
        if ok:
            p = mir.op_place(rv)
            cp = hs.canon(wb, p) if p is not None else None
            ok = cp is not None and hs.is_arg(wb, cp[0]) and not cp[1]
            k = cp[0] if ok else None
        ctx.ob("UID", "client_uid-writer:" + short(wb.root), ok,
               "client_uid is only ever initialised from Server::new's parameter", W(wb, ln))
        argk = k if k is not None else argk
    mb = hs.mut_borrows_of_field(f, SERVER, "client_uid")
    ctx.ob("UID", "no-mutable-borrow-of-client_uid", not mb, "no `&mut self.client_uid`", mb[0][0].where if mb else "-")
    if argk is None:
        return
    # callers of Server::new
    aserver = ctx.one([b for b in f.find(name="server", adt=AUTHD, trait="")], "Authenticated::server")
    argj = None
    n = 0
    for b in f.all_bodies("zbus"):
        for c in mir.calls(b):
            if c.callee != new.id:
                continue
            n += 1
            ok = b.root == aserver.id
            j = None
            if ok and len(c.args) >= argk:
                p = mir.op_place(c.args[argk - 1])
                if p is not None:
                    sb, sp = hs.upvar_source(f, b, p)
                    if sp is not None and sb.id == aserver.id and hs.is_arg(sb, sp[0]) and not sp[1]:
                        j = sp[0]
            ctx.ob("UID", "Server::new-caller:" + short(b.root), ok and j is not None,
                   "Server::new is called by Authenticated::server with its own client_uid parameter", c.where)
            argj = j if j is not None else argj
    ctx.floor("UID", "callers of Server::new", n, 1)
    if argj is None:
        return
    n = 0
    for b in f.all_bodies("zbus"):
        for c in mir.calls(b):
            if c.callee != aserver.id:
                continue
            n += 1
            a = c.args[argj - 1] if len(c.args) >= argj else None
            ok = False
            why = "client_uid handed to the server handshake is not the peer credential of the same socket"
            if a is not None and mir.op_const(a) is None:
                o = mir.origin(b, a)
                if o[0] == "call" and o[1].callee.endswith("ConnectionCredentials::unix_user_id") and o[1].args:
                    pcs = [x for x in mir.calls(b) if x.is_("peer_credentials")]
                    recv = mir.op_local(o[1].args[0])
                    sock = mir.op_place(c.args[0])
                    sroot = hs.canon(b, sock)[0] if sock is not None else None
                    for pc in pcs:
                        der = mir.derives(b, {pc.dest[0]})
                        same_sock = sroot is not None and pc.args and any(
                            l in mir.derives(b, {sroot}) for l in mir.operand_locals(pc.args[0]))
                        if recv in der and same_sock:
                            ok = True
            elif a is not None:
                o = hs.agg_of(b, a)
                ok = False
                why = "a constant is passed as client_uid"
            ctx.ob("UID", "Authenticated::server-caller:" + short(b.root), ok,
                   "client_uid = peer_credentials() of the socket being authenticated .unix_user_id()" if ok else why, c.where)
    ctx.floor("UID", "callers of Authenticated::server", n, 1)



def rule_step(ctx, f, roots, handlers, cmdinfo, mech_cmps):
    writes = hs.writes_of_field(f, SERVER, "step")
    ctx.floor("STEP", "writes of Server.step", len(writes), 5)
    mb = hs.mut_borrows_of_field(f, SERVER, "step")
    ctx.ob("STEP", "no-mutable-borrow-of-step", not mb, "no `&mut self.step` anywhere (writes are visible assignments)"
           if not mb else "step is mutably borrowed in %s" % [x[0].id for x in mb], mb[0][0].where if mb else "-")
    vfs = {}
    for body, b, i, kind, rv, ln in writes:
        root = body.root
        where = W(body, ln)
        if root.startswith("<" + SERVER + " as core::") or root.startswith("<" + STEP + " as core::"):
            ctx.ob("STEP", "writer:%s" % short(root), False, "derived impl writes step?", where)
            continue
        if kind == "subfield":
            ctx.ob("STEP", "writer:%s:partial" % short(root), False, "a field inside the step value is written in place", where)
            continue
        v, agg = step_variant(body, rv if kind == "field" else rv)
        if v is None:
            ctx.ob("STEP", "writer:%s:non-literal" % short(root), False,
                   "step is assigned a value that is not a literal state", where)
            continue
        key = "write:%s<-%s" % (v, short(root))
        if body.id not in vfs:
            vfs[body.id] = hs.vfacts(f, body)
        vf = vfs[body.id]
        st = vf.state_at_term(b) or {}
        if v == "WaitingForAuth":
            ok = root in (roots["new"].id, roots["rejected_error"].id)
            ctx.ob("STEP", key, ok, "initial state / back to start after REJECTED" if ok else "unexpected writer of WaitingForAuth", where)
        elif v == "WaitingForBegin":
            ok = root == roots["auth_ok"].id
            ctx.ob("STEP", key, ok, "only auth_ok enters WaitingForBegin" if ok else
                   "WaitingForBegin is entered outside auth_ok", where)
            if ok:
                wcs = [c for c in mir.calls(body) if c.callee == COMMON + "::write_command"]
                good = False
                for c in wcs:
                    a = hs.agg_of(body, c.args[1])
                    br = hs.try_of(body, c)
                    if a is not None and a[2] == CMD and a[3] == "Ok" and br is not None and \
                            st.get((br.dest[0], ())) == frozenset(["Continue"]):
                        good = True
                ctx.ob("STEP", key + ":after-OK-written", good,
                       "the state changes only after `OK` was written successfully", where)
        elif v == "Done":
            ok = root == roots["finalize"].id
            ck = cmdinfo["finalize"][0]
            under = ok and ck is not None and body.id == handlers["finalize"][1].id and st.get(ck) == frozenset(["Begin"])
            ctx.ob("STEP", key, ok and under,
                   "Done is entered only by finalize under Command::Begin" if ok and under else
                   "Done is entered %s" % ("outside finalize" if not ok else "under command(s) %s" % sorted(st.get(ck) or ["any"])), where)
        elif v == "WaitingForData":
            ok = root == roots["handle_auth"].id and body.id == handlers["handle_auth"][1].id
            ctx.ob("STEP", key, ok, "only handle_auth enters WaitingForData" if ok else "unexpected writer of WaitingForData", where)
            if ok:
                ck = cmdinfo["handle_auth"][0]
                cond_cmd = ck is not None and st.get(ck) == frozenset(["Auth"])
                noresp = ck is not None and any(
                    k[0] == ck[0] and k[1][:len(ck[1]) + 2] == ck[1] + (("as", "Auth"), (".", 1)) and vals == frozenset(["None"])
                    for k, vals in st.items())
                ctx.ob("STEP", key + ":under-AUTH-without-initial-response", cond_cmd and noresp,
                       "WaitingForData only after `AUTH <mech>` without initial response", where)
                # payload is the configured mechanism
                pay = agg[4][0] if agg and agg[4] else None
                o = mir.origin(body, pay) if pay is not None else ("none",)
                okp = o[0] == "call" and o[1].callee == COMMON + "::mechanism"
                ctx.ob("STEP", key + ":payload-is-configured-mechanism", okp,
                       "the mechanism remembered for the DATA step is Common::mechanism()", where)
                good = False
                for c in mir.calls(body):
                    if c.callee == COMMON + "::write_command":
                        a = hs.agg_of(body, c.args[1])
                        br = hs.try_of(body, c)
                        if a is not None and a[2] == CMD and a[3] == "Data" and br is not None and \
                                st.get((br.dest[0], ())) == frozenset(["Continue"]):
                            good = True
                ctx.ob("STEP", key + ":after-DATA-written", good, "the state changes only after the DATA request was written", where)
        else:
            ctx.ob("STEP", key, False, "unknown state variant", where)


def rule_dispatch(ctx, f, roots):
    ns = code(ctx, f, roots["next_step"], hs.has_call("handle_auth"), "calls handle_auth")
    vf = hs.vfacts(f, ns)
    keys = vf.enum_keys(STEP)
    ctx.ob("DISPATCH", "next_step:one-state-scrutinee", len(keys) == 1, "next_step matches on %d state value(s)" % len(keys), ns.where)
    if len(keys) != 1:
        return
    key = list(keys)[0]
    # it is self.step
    kb = keys[key][0]
    sc = mir.switch_scrutinee(ns, kb)
    src_body, pl = hs.upvar_source(f, ns, sc[1])
    is_step = pl is not None and hs.place_has_field(pl, "step", SERVER) or hs.place_has_field(hs.canon(ns, sc[1]), "step", SERVER)
    ctx.ob("DISPATCH", "next_step:scrutinee-is-self.step", bool(is_step), "the state matched on is Server.step", ns.where)
    want = {"handle_auth": "WaitingForAuth", "handle_auth_data": "WaitingForData", "finalize": "WaitingForBegin"}
    for h, state in want.items():
        cs = [c for c in mir.calls(ns) if c.callee == roots[h].id]
        ctx.floor("DISPATCH", "next_step calls " + h, len(cs), 1)
        for c in cs:
            got = vf.possible(c.b, key)
            ctx.ob("DISPATCH", "next_step:%s-only-in-%s" % (h, state), got == frozenset([state]),
                   "%s runs only in state %s" % (h, state) if got == frozenset([state]) else
                   "%s can run in state(s) %s" % (h, sorted(got) if got else "any"), c.where)
            if h == "handle_auth_data":
                p = mir.op_place(c.args[1]) if len(c.args) > 1 else None
                k = hs.ckey(ns, p) if p is not None else None
                ok = k is not None and k[0] == key[0] and k[1] == key[1] + (("as", "WaitingForData"), (".", 0))
                ctx.ob("DISPATCH", "next_step:handle_auth_data-gets-state-payload", ok,
                       "the mechanism passed on is the one stored in WaitingForData", c.where)
    # Ok(true) only under Done
    n_ok = 0
    for kind, b, info in hs.returns(ns):
        if kind == "ok":
            n_ok += 1
            v = hs.const_arg(ns, info[4][0]) if info[4] else None
            if v is False:
                continue
            got = vf.possible(b, key)
            ctx.ob("DISPATCH", "next_step:finished-only-in-Done", got == frozenset(["Done"]),
                   "Ok(true) is returned only in state Done" if got == frozenset(["Done"]) else
                   "next_step reports completion (Ok(%s)) in state(s) %s" % (v, sorted(got) if got else "any"), ns.where)
        elif kind in ("call", "other"):
            ctx.ob("DISPATCH", "next_step:return-shape", False, "unrecognised return value of next_step", ns.where)
    ctx.floor("DISPATCH", "Ok returns of next_step", n_ok, 2)
    # who calls the handlers
    for b in f.all_bodies("zbus"):
        for c in mir.calls(b):
            for h in want:
                if c.callee == roots[h].id or c.declared == roots[h].id:
                    ctx.ob("DISPATCH", "caller:%s<-%s" % (h, short(b.root)), b.root == roots["next_step"].id,
                           "handlers are entered through next_step only", c.where)


def rule_perform(ctx, f, roots):
    perf = ctx.one(f.find(name="perform", adt=SERVER, trait=HS + "Handshake"), "<Server as Handshake>::perform")
    body = code(ctx, f, perf, hs.has_call("next_step"), "calls next_step")
    vf = hs.vfacts(f, body)
    nsc = [c for c in mir.calls(body) if c.callee == roots["next_step"].id]
    ctx.ob("PERFORM", "server-perform:one-next_step-call", len(nsc) == 1, "%d call(s) of next_step" % len(nsc), body.where)
    aggs = [(b, i, rv, ln) for b, i, pl, rv, ln in mir.assignments(body) if rv[0] == "agg" and rv[1] == "adt" and rv[2] == AUTHD]
    ctx.floor("PERFORM", "construction of Authenticated in server perform", len(aggs), 1)
    if len(nsc) == 1:
        br = hs.try_of(body, nsc[0])
        for b, i, rv, ln in aggs:
            got = vf.possible(b, hs.continue_payload_key(body, br)) if br is not None else None
            ctx.ob("PERFORM", "server-perform:authenticated-only-when-next_step-true", got == frozenset(["true"]),
                   "Authenticated is built only after next_step() returned Ok(true)" if got == frozenset(["true"]) else
                   "Authenticated can be built while next_step() returned %s" % (sorted(got) if got else "anything"), W(body, ln))
    # who builds Authenticated
    cperf = f.find(name="perform", adt=HS + "client::Client", trait=HS + "Handshake")
    allowed = {perf.id} | {x.id for x in cperf}
    BUILDER_CONNECT = "zbus::connection::builder::Builder::<'a>::connect"
    for b in f.all_bodies("zbus"):
        for bi, i, pl, rv, ln in mir.assignments(b):
            if rv[0] == "agg" and rv[1] == "adt" and rv[2] == AUTHD:
                if b.root == BUILDER_CONNECT:
                    # documented escape hatch `Builder::authenticated_socket`: the caller vouches for the
                    # socket; accepted only under the `authenticated` flag returned by target_connect()
                    bvf = hs.vfacts(f, b)
                    tcs = [c for c in mir.calls(b) if c.is_("target_connect")]
                    ok = False
                    for c in tcs:
                        br = hs.try_of(b, c)
                        if br is None:
                            continue
                        k = hs.continue_payload_key(b, br)
                        st = bvf.state_at_term(bi) or {}
                        for kk, vals in st.items():
                            if kk[0] == k[0] and kk[1][:2] == k[1] and len(kk[1]) == 3 and kk[1][2][0] == "." and vals == frozenset(["true"]):
                                ok = True
                    ctx.ob("PERFORM", "authenticated-built-in:%s:only-for-authenticated_socket" % short(b.root), ok,
                           "Builder::connect builds Authenticated itself only under the `authenticated` flag of target_connect() "
                           "(Builder::authenticated_socket: the application vouches for the peer)", W(b, ln))
                    continue
                ctx.ob("PERFORM", "authenticated-built-in:" + short(b.root), b.root in allowed,
                       "Authenticated is produced by a handshake's perform only", W(b, ln))
    return perf


def rule_helpers(ctx, f, roots):
    spec = {"auth_ok": "Ok", "rejected_error": "Rejected", "unsupported_command_error": "Error"}
    for h, variant in spec.items():
        def pred(b):
            return bool(mir.calls_to(b, "write_command")) or any(
                rv[0] == "agg" and rv[1] == "adt" and rv[2] == CMD for bi, i, pl, rv, ln in mir.assignments(b))
        cands = hs.code_bodies(f, roots[h].id, pred)
        if len(cands) != 1:
            ctx.ob("HELPERS", "%s:always-writes-%s" % (h, variant.upper()), False,
                   "%s neither builds nor writes a command (%d candidate bodies)" % (h, len(cands)), roots[h].where)
            continue
        body = cands[0]
        vf = hs.vfacts(f, body)
        wcs = [c for c in mir.calls(body) if c.callee == COMMON + "::write_command"]
        good = []
        for c in wcs:
            a = hs.agg_of(body, c.args[1])
            if a is not None and a[2] == CMD and a[3] == variant:
                good.append(c)
            else:
                ctx.ob("HELPERS", "%s:writes-only-%s" % (h, variant.upper()), False,
                       "%s writes %s" % (h, a[3] if a is not None else "a command that is not a literal"), c.where)
        ctx.floor("HELPERS", "%s writes %s" % (h, variant.upper()), len(good), 1)
        stop = {c.b for c in good} | residual_blocks(body)
        seen = vf.reach([0], avoid=stop)
        silent = seen & set(mir.exits(body))
        ctx.ob("HELPERS", "%s:always-writes-%s" % (h, variant.upper()), not silent,
               "every non-error path of %s writes %s" % (h, variant.upper()), body.where)
        if h == "auth_ok":
            for c in good:
                a = hs.agg_of(body, c.args[1])
                o = mir.origin(body, a[4][0]) if a[4] else ("none",)
                src = None
                if o[0] == "call" and o[1].is_("clone") and o[1].args:
                    p = payload_place(body, o[1].args[0])
                    src = p
                elif o[0] in ("place", "ref"):
                    src = hs.canon(body, o[1])
                ok = False
                if src is not None:
                    sb, sp = hs.upvar_source(f, body, src)
                    ok = hs.place_has_field(src, "guid", SERVER) or (sp is not None and hs.place_has_field(sp, "guid", SERVER))
                ctx.ob("HELPERS", "auth_ok:OK-carries-server-guid", ok, "the GUID sent with OK is Server.guid", c.where)


def rule_fd(ctx, f, handlers, cmdinfo):
    root, body, vf = handlers["finalize"]
    key = cmdinfo["finalize"][0]
    if key is None:
        return
    can = [c for c in mir.calls(body) if c.is_("can_pass_unix_fd")]
    sets = [c for c in mir.calls(body) if c.callee == COMMON + "::set_cap_unix_fd"]
    agrees = [e for e in effects(body) if e[0] == "write:AgreeUnixFD"]
    ctx.floor("FD", "set_cap_unix_fd / AGREE_UNIX_FD sites in finalize", len(sets) + len(agrees), 2)

    def possible_here(b):
        st = vf.state_at_term(b) or {}
        return st.get(key) == frozenset(["NegotiateUnixFD"]), any(st.get((c.dest[0], ())) == frozenset(["true"]) for c in can)
    for c in sets:
        v = hs.const_arg(body, c.args[1]) if len(c.args) > 1 else None
        if v is False:
            continue
        a, b_ = possible_here(c.b)
        ctx.ob("FD", "finalize:set_cap_unix_fd-only-when-negotiated-and-possible", a and b_,
               "fd passing is enabled only under NEGOTIATE_UNIX_FD and can_pass_unix_fd() == true" if a and b_ else
               "fd passing enabled with negotiated=%s transport-capable=%s" % (a, b_), c.where)
    for lab, b, w, c in agrees:
        a, b_ = possible_here(b)
        ctx.ob("FD", "finalize:AGREE-only-when-negotiated-and-possible", a and b_,
               "AGREE_UNIX_FD is written only under NEGOTIATE_UNIX_FD and can_pass_unix_fd() == true", w)
        # and the capability was set on the way
        setb = {c2.b for c2 in sets if hs.const_arg(body, c2.args[1]) is True}
        dom = any(mir.block_dominates(body, sb, b) for sb in setb)
        ctx.ob("FD", "finalize:AGREE-implies-capability-set", dom, "whenever AGREE_UNIX_FD is written the capability has been enabled", w)
    # who writes Common.cap_unix_fd / calls the setter
    for b in f.all_bodies("zbus"):
        for c in mir.calls(b):
            if c.callee == COMMON + "::set_cap_unix_fd":
                ok = b.root in (root.id, HS + "client::Client::send_secondary_commands", HS + "client::Client::receive_secondary_responses")
                ctx.ob("FD", "set_cap_unix_fd-caller:" + short(b.root), ok, "confirmed caller (client side is decided by C17)", c.where)


def rule_parse(ctx, f, handlers, cmdinfo, roots):
    rcs_root = ctx.one(f.find(name="read_commands", adt=COMMON, trait=""), "Common::read_commands")
    rcs = code(ctx, f, rcs_root, hs.has_call("recvmsg"), "calls recvmsg")
    parse = [c for c in mir.calls(rcs) if (c.is_("parse") and CMD in c.fnargs) or c.callee == "<%s as core::str::traits::FromStr>::from_str" % CMD]
    ctx.floor("PARSE", "parse of a line into Command in read_commands", len(parse), 1)
    vf = hs.vfacts(f, rcs)
    escapes = False
    for c in parse:
        br = hs.try_of(rcs, c)
        if br is None:
            continue
        # Break edge reaches a residual return
        resid = residual_blocks(rcs)
        within = vf.blocks_where((br.dest[0], ()), "Break")
        seen = vf.reach([br.b], within=within)
        if seen & resid:
            escapes = True
    # handlers: error of read_command leaves without reply
    for hname, (root, body, hvf) in handlers.items():
        key, rc, br = cmdinfo[hname]
        if br is None:
            continue
        effs = effects(body)
        stop = {b for (lab, b, w, c) in effs if lab in ("ERROR", "REJECTED", "write:Error", "write:Rejected")}
        within = hvf.blocks_where((br.dest[0], ()), "Break")
        seen = hvf.reach([br.b], avoid=stop, within=within)
        silent = bool(seen & set(mir.exits(body)))
        ctx.ob("PARSE", "%s:unparsable-line-is-answered" % hname, not (escapes and silent),
               "a line that fails to parse is answered with ERROR/REJECTED" if not (escapes and silent) else
               "Command::from_str failing (unknown command / bad hex) leaves read_commands as Err, and %s forwards that Err with `?` "
               "without writing ERROR: the handshake is aborted instead of answered" % hname, rc.where)
    # unknown mechanism name is a parse error
    fs = ctx.one(f.find(name="from_str", adt=CMD, trait="core::str::traits::FromStr"), "<Command as FromStr>::from_str")
    mp = [c for c in mir.calls(fs) if (c.is_("parse") and MECH in c.fnargs) or c.callee == "<%s as core::str::traits::FromStr>::from_str" % MECH]
    ctx.floor("PARSE", "parse of the mechanism name in Command::from_str", len(mp), 1)
    fvf = hs.vfacts(f, fs)
    for c in mp:
        br = hs.try_of(fs, c)
        bad = False
        if br is not None:
            within = fvf.blocks_where((br.dest[0], ()), "Break")
            seen = fvf.reach([br.b], within=within)
            bad = bool(seen & residual_blocks(fs))
        ctx.ob("PARSE", "unknown-mechanism-is-rejected", not (bad and escapes),
               "an AUTH line naming an unknown mechanism still yields a Command (and is then REJECTED)" if not (bad and escapes) else
               "AuthMechanism::from_str failing makes Command::from_str return Err: `AUTH <unknown mechanism>` aborts the handshake "
               "instead of being answered with REJECTED", c.where)


# entry assertions of the handlers are discharged by DISPATCH (each handler runs only in its state)
STATE_ASSERTS = {
    SERVER + "::handle_auth": "DISPATCH: handle_auth is called only by next_step in state WaitingForAuth",
    SERVER + "::handle_auth_data": "DISPATCH: handle_auth_data is called only by next_step in state WaitingForData",
    SERVER + "::finalize": "DISPATCH: finalize is called only by next_step in state WaitingForBegin",
}

PANIC_SCOPE = (HS + "server::", HS + "common::", HS + "command::", HS + "auth_mechanism::", HS + "Authenticated::server")


def run(ctx):
    ctx.explanation = (
        "Static rules over the MIR of zbus (K1, feature p2p): variant-set dataflow over every match of the three server "
        "handlers gives, per reply site, the commands / mechanism / payload shape under which it runs; these are compared "
        "with the SASL server state table (ARMS, MECH, FD), the typestate writer table (STEP, DISPATCH, PERFORM), the "
        "justification of every auth_ok call (AUTH-OK, CRED), the reply helpers (HELPERS), the parse-error path (PARSE) "
        "and a panic-site audit of the handshake modules (PANIC).")
    ctx.not_decided = ("transport behaviour (recvmsg/sendmsg results), hex/uuid crates, task scheduling; CRED recognises four "
                       "spellings of the credential comparison only.")
    check_config(ctx, ctx.facts("K1"))
    if ctx.tier == "thorough":
        check_config(hs.Tagged(ctx, "K3:"), ctx.facts("K3"))


def check_config(ctx, f):
    names = ["new", "auth_ok", "check_external_auth", "unsupported_command_error", "rejected_error", "next_step",
             "handle_auth", "handle_auth_data", "finalize"]
    roots = {n: fn(ctx, f, n) for n in names}
    handlers = {}
    for h in ("handle_auth", "handle_auth_data", "finalize"):
        body = code(ctx, f, roots[h], hs.has_call("read_command"), "calls read_command")
        handlers[h] = (roots[h], body, hs.vfacts(f, body))
    cmdinfo = rule_arms(ctx, f, handlers)
    cmps = rule_mech(ctx, f, handlers, cmdinfo)
    rule_cred(ctx, f, roots["check_external_auth"])
    rule_auth_ok(ctx, f, handlers, cmdinfo, roots)
    rule_uid(ctx, f, roots)
    rule_step(ctx, f, roots, handlers, cmdinfo, cmps)
    rule_dispatch(ctx, f, roots)
    rule_perform(ctx, f, roots)
    rule_helpers(ctx, f, roots)
    rule_fd(ctx, f, handlers, cmdinfo)
    rule_parse(ctx, f, handlers, cmdinfo, roots)
    hs.rule_read_n(ctx, f)
    hs.rule_wire(ctx, f)
    n = hs.panic_audit(ctx, f, PANIC_SCOPE, dict(hs.COMMON_PANIC_OK), STATE_ASSERTS)
    ctx.floor("PANIC", "panic-capable constructs audited in the server handshake modules", n, 8)
