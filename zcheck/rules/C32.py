"""C32 — A proxy's signal stream yields signals only from the name's current owner (DESIGN §5.C32).

  O-SENDER   every place where SignalStream code takes a new owner out of NameOwnerChanged arguments
             (`NameOwnerChangedArgs::new_owner` / field `new_owner`, in SignalStream::new and SignalStream::filter)
             is reached only through the "equal" edge of a comparison of that message's `Header::sender()` with the
             bus driver's name "org.freedesktop.DBus" -- or, alternatively, MatchRule::matches itself compares the
             header's sender on the well-known-sender arm (so that the driver-rule streams feeding this code are
             sender-checked). One instance per function. EXPECTED TO FAIL on the unchanged tree (DESIGN §7 K-C32).
  O-YIELD    SignalStream::filter returns Ok(true) only on the true edge of `sender == self.src_unique_name`
             (one side from Header::sender() of the `msg` parameter, the other from the field)
  O-GATE     SignalStream::poll_next_before builds PollResult::Item only on the Ok(true) edge of the result of
             `filter` applied to that same message
  O-WHO      the field SignalStream.src_unique_name is written only by SignalStream::filter (from new_owner of a
             NameOwnerChanged parsed from the `msg` parameter) and by the constructor SignalStream::new; `filter` is
             called only from poll_next_before
  O-LOOKUP   in SignalStream::new the `GetNameOwner` await starts only after the await that subscribes to
             NameOwnerChanged completed (no owner change can fall between lookup and subscription)

Recognised sender checks: `==` / `!=` (PartialEq call, either polarity) between a value computed from
`Header::sender()` of the message the NameOwnerChanged was parsed from and the literal "org.freedesktop.DBus"; when the
literal sits inside a constant promoted by rustc (`== Some("...")`) the facts cannot render it, and a comparison of the
sender with such a compile-time constant is accepted.

Not decided: that the bus delivers NameOwnerChanged in order; semantics of ordered_stream::join; argument checks on
the buffered NameOwnerChanged; the match rule strings. Comparisons hidden in helper functions are not recognised
(the rule then reports, fail closed).
"""
from .. import mir, awaits as aw
from .. import lib_asyncflow as af

SS = "zbus::proxy::SignalStream"
NOC_ARGS = "zbus::fdo::dbus::NameOwnerChangedArgs"
DRIVER = "org.freedesktop.DBus"

META = {
    "technique": "MIR edge-control (comparison edge dominates the update / yield) + writer-set table + await ordering",
    "level": ("Decides on every path of SignalStream::{new,filter,poll_next_before} that a message is yielded only when "
              "its sender equals the tracked owner, that the tracked owner has no other writers, that the owner lookup "
              "follows the subscription, and whether owner updates taken from NameOwnerChanged are preceded by a check "
              "that the message was sent by the bus driver (absent on the unchanged tree: forged unicast "
              "NameOwnerChanged). Necessary conditions; run-time ordering by the bus is assumed."),
}


def new_owner_sources(body):
    """[(block, line, operand that yields the args value)] : calls of NameOwnerChangedArgs::new_owner and reads of
    the field NameOwnerChangedArgs.new_owner"""
    out = []
    for c in mir.calls(body):
        if c.is_("new_owner") and NOC_ARGS in c.callee and c.args:
            out.append((c.b, c.line, c.args[0]))
    for b, i, pl, rv, ln in mir.assignments(body):
        for op in mir.rvalue_operands(rv):
            p = mir.op_place(op)
            if p and any(isinstance(x, list) and x[0] == "." and x[2] == "new_owner" and str(x[3]).startswith(NOC_ARGS)
                         for x in p[1]):
                out.append((b, ln, ["c", [p[0], []]]))
    return out


def from_message_of(body, op):
    """the NameOwnerChanged::from_message call(s) an args operand goes back to"""
    sl = af.backslice(body, op)
    return [c for c in sl["calls"] if c.is_("from_message") and "NameOwnerChanged" in c.callee]


def check_sender(ctx, f, bodies):
    alt = af.matches_checks_wellknown_sender(f)
    per_fn = {}
    for body in bodies:
        for b, ln, argsop in new_owner_sources(body):
            fms = from_message_of(body, argsop)
            msg_locals = set()
            for fm in fms:
                msg_locals.add(fm.dest[0])
                sl = af.backslice(body, fm.args[0]) if fm.args else None
                if sl:
                    msg_locals |= sl["params"] | {p[0] for p in sl["places"]}
            msg_locals -= {1} if body.kind == "coroutine" else set()
            ok = alt
            if not ok and fms:
                for sb, eq_t, ne_t in af.driver_checks(body, msg_locals):
                    if af.edge_dominates(body, sb, eq_t, b):
                        ok = True
            per_fn.setdefault(body.id, []).append((ok, "%s:%d" % (body.file, ln), bool(fms)))
    return per_fn


def check_filter(ctx, f):
    flt = ctx.one(f.find(name="filter", adt=SS, trait=""), "SignalStream::filter")
    argc = flt.d["argc"]
    msgp = [l for l in range(1, argc + 1) if "message::Message" in flt.locals[l][0]]
    ctx.need(msgp, "Message parameter of SignalStream::filter")
    # comparisons sender == self.src_unique_name
    cmps = []
    for sb, cc, tt, ft, neg in mir.call_bool_switches(flt):
        if not cc.is_("eq", "ne") or len(cc.args) < 2 or tt == ft:
            continue
        if cc.is_("ne"):
            tt, ft = ft, tt
        sl = [af.backslice(flt, a) for a in cc.args[:2]]
        for x, y in ((0, 1), (1, 0)):
            sc = af.slice_has_call(sl[x], af.is_sender_call)
            if sc and af.slice_has_field(sl[y], "src_unique_name", SS) and not af.slice_has_field(sl[x], "src_unique_name", SS):
                # the sender is the one of the msg parameter
                if any(af.backslice(flt, s.args[0])["params"] & set(msgp) for s in sc if s.args):
                    cmps.append((sb, tt, ft, cc))
    n = 0
    for b, i, pl, rv, ln in mir.assignments(flt):
        if not (pl[0] == mir.RET and not pl[1] and rv[0] == "agg" and rv[3] == "Ok" and rv[4]):
            continue
        where = "%s:%d" % (flt.file, ln)
        k = mir.resolve_const(flt, rv[4][0])
        if k is not None and k.get("v") in (False, 0):
            continue
        n += 1
        if k is not None:
            ok = any(tt is not None and af.edge_dominates(flt, sb, tt, b) for sb, tt, ft, cc in cmps)
            ctx.ob("O-YIELD", "Ok(true)-only-when-sender-is-owner", ok,
                   "Ok(true) is returned only on the true edge of `sender == self.src_unique_name`" if ok else
                   "filter returns Ok(true) on a path that did not compare the sender with the tracked owner", where)
        else:
            o = mir.origin(flt, rv[4][0])
            ok = o[0] == "call" and any(o[1].c is cc.c for sb, tt, ft, cc in cmps) and o[1].is_("eq")
            ctx.ob("O-YIELD", "Ok(<computed>)-is-the-owner-comparison", ok,
                   "the returned flag is the result of `sender == self.src_unique_name`" if ok else
                   "filter returns a computed flag that is not the sender/owner comparison", where)
    ctx.floor("O-YIELD", "accepting returns of SignalStream::filter", n, 1)
    ctx.floor("O-YIELD", "comparisons of the message sender with src_unique_name", len(cmps), 1)
    return flt


def check_gate(ctx, f, flt):
    pn = ctx.one([b for b in f.find(name="poll_next_before", trait="ordered_stream::OrderedStream")
                  if b.d.get("impl_adt") == SS], "<SignalStream as OrderedStream>::poll_next_before")
    fcalls = [c for c in mir.calls(pn) if c.callee == flt.id]
    ctx.floor("O-GATE", "calls of filter in poll_next_before", len(fcalls), 1)
    items = [(b, i, rv, ln) for b, i, pl, rv, ln in mir.assignments(pn)
             if rv[0] == "agg" and rv[1] == "adt" and rv[2].endswith("PollResult") and rv[3] == "Item"]
    ctx.floor("O-GATE", "constructions of PollResult::Item", len(items), 1)
    for b, i, rv, ln in items:
        where = "%s:%d" % (pn.file, ln)
        ok = False
        same = False
        for c in fcalls:
            res = c.dest[0]
            # message yielded is the one filtered
            m1 = af.backslice(pn, rv[4][0])
            m2 = af.backslice(pn, c.args[1]) if len(c.args) > 1 else None
            roots1 = {p[0] for p in m1["places"]}
            roots2 = {p[0] for p in m2["places"]} if m2 else set()
            named = {l for l in roots1 & roots2 if mir.local_name(pn, l) is not None}
            if named:
                same = True
            for sb, t in mir.switches(pn):
                if t[2] != "bool":
                    continue
                tt, ft = mir.bool_switch_edges(t)
                if tt is None or tt == ft:
                    continue
                op = t[1]
                p = mir.op_place(op)
                direct = p is not None and p[0] == res and any(isinstance(x, list) and x[0] == "as" and x[1] == "Ok" for x in p[1])
                via = False
                if not direct and p is not None:
                    o = mir.origin(pn, op)
                    if o[0] == "rv" and o[1][0] == "un" and o[1][1] == "Not":
                        tt, ft = ft, tt
                        o = mir.origin(pn, o[1][2])
                    # `filter(..).unwrap_or(false)` / `.unwrap_or_default()`: true only for Ok(true)
                    if o[0] == "call" and o[1].is_("unwrap_or", "unwrap_or_default") and o[1].args and \
                            (mir.op_local(o[1].args[0]) == res or res in {q[0] for q in af.backslice(pn, o[1].args[0])["places"]}):
                        k = [mir.resolve_const(pn, a) for a in o[1].args[1:]]
                        via = o[1].is_("unwrap_or_default") or any(x is not None and x.get("v") in (False, 0) for x in k)
                if (direct or via) and af.edge_dominates(pn, sb, tt, b):
                    ok = True
        ctx.ob("O-GATE", "item-only-when-filter-says-Ok(true)", ok,
               "PollResult::Item is built only on the Ok(true) edge of filter's result" if ok else
               "PollResult::Item can be built without filter having returned Ok(true)", where)
        ctx.ob("O-GATE", "item-is-the-filtered-message", same,
               "the yielded message is the one passed to filter" if same else
               "the yielded message is not the one passed to filter", where)
    # filter has no other callers
    for body in f.all_bodies("zbus"):
        for c in mir.calls(body):
            if c.callee == flt.id:
                ctx.ob("O-WHO", "filter-caller:" + body.root, body.id == pn.id,
                       "filter called from poll_next_before" if body.id == pn.id else "unexpected caller of SignalStream::filter", c.where)


def check_who(ctx, f, flt):
    ctor = ctx.one(f.find(name="new", adt=SS, trait=""), "SignalStream::new")
    allowed = {flt.id: "owner tracking in filter", ctor.id: "constructor"}
    n = 0
    for body in f.all_bodies("zbus"):
        for b, i, pl, rv, ln in mir.assignments(body):
            w = any(isinstance(p, list) and p[0] == "." and p[2] == "src_unique_name" and str(p[3]).startswith(SS) for p in pl[1])
            agg = rv[0] == "agg" and rv[1] == "adt" and rv[2] == SS
            if not (w or agg):
                continue
            n += 1
            ok = body.root in allowed
            where = "%s:%d" % (body.file, ln)
            ctx.ob("O-WHO", "owner-writer:" + body.root, ok,
                   allowed.get(body.root, "unexpected writer of SignalStream.src_unique_name"), where)
            if w and body.id == flt.id:
                sl = af.backslice(body, rv[1]) if rv[0] == "use" else None
                src_ok = False
                if sl is not None:
                    no = [c for c in sl["calls"] if c.is_("new_owner") and NOC_ARGS in c.callee] or \
                        af.slice_has_field(sl, "new_owner", NOC_ARGS)
                    fm = [c for c in sl["calls"] if c.is_("from_message") and "NameOwnerChanged" in c.callee]
                    argc = body.d["argc"]
                    msgp = {l for l in range(1, argc + 1) if "message::Message" in body.locals[l][0]}
                    src_ok = bool(no) and bool(fm) and bool(sl["params"] & msgp)
                ctx.ob("O-WHO", "filter-write-comes-from-NameOwnerChanged-of-msg", src_ok,
                       "the owner written by filter is new_owner of a NameOwnerChanged parsed from the filtered message"
                       if src_ok else "filter writes an owner that is not new_owner of the filtered message", where)
    ctx.floor("O-WHO", "writers of SignalStream.src_unique_name", n, 2)


def check_lookup(ctx, f):
    ctor = ctx.one(f.find(name="new", adt=SS, trait=""), "SignalStream::new")
    new = ctx.one([b for b in f.children.get(ctor.id, []) if b.kind == "coroutine"], "coroutine of SignalStream::new")
    aws = aw.awaits(f, new)
    look = []
    subs = []
    for a in aws:
        c = a.call
        if c is None:
            continue
        strs = [mir.op_const(x).get("v") for x in c.args if mir.op_const(x) is not None]
        if c.is_("call_method_raw", "call_method", "call") and "GetNameOwner" in strs:
            look.append(a)
        if c.is_("get_name_owner") and "DBusProxy" in c.callee:
            look.append(a)
        if c.is_("for_match_rule") and c.args:
            sl = af.backslice(new, c.args[0])
            if af.slice_has_str(sl, "NameOwnerChanged"):
                subs.append(a)
    ctx.floor("O-LOOKUP", "awaits of the GetNameOwner call in SignalStream::new", len(look), 1)
    ctx.floor("O-LOOKUP", "awaits subscribing to NameOwnerChanged in SignalStream::new", len(subs), 1)
    for g in look:
        ok = any(af.await_starts_after(new, g, s) for s in subs)
        ctx.ob("O-LOOKUP", "subscribe-before-GetNameOwner", ok,
               "GetNameOwner is awaited only after the NameOwnerChanged subscription completed" if ok else
               "the GetNameOwner await can start before the NameOwnerChanged subscription completed", g.where)
    return new


def check_track_release(ctx, f, flt):
    """O-TRACK (added after seeded change C32): a NameOwnerChanged that names no new owner (the name was released) must
    clear the tracked owner too. So once `filter` has decoded the signal's arguments, every path to a normal return
    stores `src_unique_name`; a store placed under `if let Some(new_owner) = ..` keeps the former owner and its signals
    are still yielded while the name has no owner."""
    stores = set()
    for bi, i, pl, rv, ln in mir.assignments(flt):
        if "src_unique_name" in mir.place_fields(pl):
            stores.add(bi)
    for c in mir.calls(flt):
        # Option::take / replace / insert on the field also store it
        if c.args and c.callee.rsplit("::", 1)[-1] in ("replace", "insert", "take", "clone_from"):
            o = mir.origin(flt, c.args[0])
            if o[0] in ("place", "ref") and "src_unique_name" in mir.place_fields(o[1]):
                stores.add(c.b)
    argcalls = [c for c in mir.calls(flt) if c.is_("args") and "NameOwnerChanged" in c.callee]
    ctx.floor("O-TRACK", "NameOwnerChanged::args calls in SignalStream::filter", len(argcalls), 1)
    for c in argcalls:
        # success continuation of `args()?`
        start = c.c["t"]
        br = [x for x in mir.calls(flt) if x.is_("branch") and mir.origin(flt, x.args[0])[0] == "call" and mir.origin(flt, x.args[0])[1] is c]
        cont = None
        for x in br:
            for sb, place, adt, arms, other in mir.discr_switches(flt, None):
                if place[0] == x.dest[0]:
                    cont = arms.get("0", other)
        if cont is None:
            cont = start
        # error exits (from_residual) are not "normal" completions of the update
        errs = {x.b for x in mir.calls(flt) if x.is_("from_residual")}
        reach = mir.reachable(flt, [cont], avoid=stores | errs)
        leak = [e for e in mir.exits(flt) if e in reach]
        ctx.ob("O-TRACK", "filter:owner-stored-on-every-NameOwnerChanged", not leak,
               "after decoding NameOwnerChanged every path stores the tracked owner (also when the name has no new owner)" if not leak else
               "filter can return after decoding NameOwnerChanged without storing src_unique_name (e.g. when new_owner is None): "
               "the former owner stays tracked after it released the name", c.where)


def driver_rule(ctx, f, new):
    """O-SENDER:rule-names-driver (added after seeded change C32b). The sender check that protects owner updates lives
    in MatchRule::matches, so it only exists for a stream whose rule *has* the driver as sender: the rule that
    SignalStream::new builds for `NameOwnerChanged` must pass the literal "org.freedesktop.DBus" to Builder::sender
    before it is handed to MessageStream::for_match_rule."""
    n = 0
    for b in f.family(new):
        members = [c for c in mir.calls(b) if c.is_("member") and "match_rule::builder::Builder" in c.callee and len(c.args) > 1
                   and lit(b, c.args[1]) == "NameOwnerChanged"]
        for m in members:
            n += 1
            senders = [c for c in mir.calls(b) if c.is_("sender") and "match_rule::builder::Builder" in c.callee and len(c.args) > 1
                       and lit(b, c.args[1]) == DRIVER]
            ok = any(any(l in mir.derives(b, {c.dest[0]}, through_calls=True) for l in mir.operand_locals(m.args[0])) for c in senders)
            ctx.ob("O-SENDER", "rule-names-driver:" + b.id, ok,
                   "the NameOwnerChanged rule is built with sender(\"%s\"): MatchRule::matches then rejects look-alikes from peers" % DRIVER
                   if ok else "the NameOwnerChanged rule built here has no sender(\"%s\") component: any peer's NameOwnerChanged "
                   "look-alike reaches the owner-tracking code" % DRIVER, m.where)
    ctx.floor("O-SENDER", "NameOwnerChanged match rules built in SignalStream::new", n, 1)


def lit(body, op):
    o = mir.origin(body, op)
    if o[0] == "const" and isinstance(o[1].get("v"), str):
        return o[1]["v"]
    k = mir.resolve_const(body, op)
    return k.get("v") if k is not None and isinstance(k.get("v"), str) else None


def run(ctx):
    ctx.explanation = ("MIR rules over zbus (K1): SignalStream::filter accepts only on the true edge of "
                       "`sender == src_unique_name`; poll_next_before yields only on filter's Ok(true) for that message; "
                       "src_unique_name is written only by filter (from NameOwnerChanged of the filtered message) and the "
                       "constructor; the owner lookup follows the NameOwnerChanged subscription; every use of "
                       "NameOwnerChanged.new_owner as the new tracked owner must be preceded by a comparison of the "
                       "message's sender with org.freedesktop.DBus (locally or in MatchRule::matches).")
    ctx.not_decided = ("bus-side ordering of NameOwnerChanged vs. signals; ordered_stream::join; comparisons hidden in "
                       "helper functions (reported, fail closed).")
    f = ctx.facts("K1")
    flt = check_filter(ctx, f)
    check_track_release(ctx, f, flt)
    check_gate(ctx, f, flt)
    check_who(ctx, f, flt)
    new = check_lookup(ctx, f)
    bodies = [flt] + [b for b in f.family(new)]
    seen = set()
    bodies = [b for b in bodies if not (b.id in seen or seen.add(b.id))]
    per_fn = check_sender(ctx, f, bodies)
    total = 0
    for bid, lst in sorted(per_fn.items()):
        total += len(lst)
        bad = [w for ok, w, parsed in lst if not ok]
        ctx.ob("O-SENDER", "driver-sender-checked:" + bid, not bad,
               "all %d owner update(s) from NameOwnerChanged are preceded by a driver-sender check" % len(lst) if not bad else
               "owner taken from a NameOwnerChanged message whose sender was never compared with %s (a peer can send a "
               "unicast signal with interface/member NameOwnerChanged; MatchRule::matches does not check well-known "
               "senders) at %s" % (DRIVER, ", ".join(bad)), (bad or [lst[0][1]])[0])
    driver_rule(ctx, f, new)
    ctx.floor("O-SENDER", "owner updates from NameOwnerChanged in SignalStream::filter", len(per_fn.get(flt.id, [])), 1)
    ctx.floor("O-SENDER", "owner updates from NameOwnerChanged in SignalStream::new", len(per_fn.get(new.id, [])), 2)
