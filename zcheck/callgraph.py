"""Whole-workspace call graph over the facts.

Edges:  caller body -> callee body ids
  * resolved / declared callee of every Call terminator (when the callee has a body in the facts)
  * unresolved trait-method calls (generic dispatch, dyn): every workspace impl of that trait method
  * closures / coroutines constructed in a body (treated as called)
  * fn items used as values (`map(Self::foo)`)
"""
from . import mir


FANOUT_CRATES = {"zbus", "zvariant", "zvariant_utils", "zbus_names", "zbus_macros", "zvariant_derive", "zbus_xml",
                 "zbus_xmlgen", "serde_core", "serde"}


class CallGraph:
    def __init__(self, facts):
        self.f = facts
        self.edges = {}      # body id -> set(body ids)
        self.callsites = {}  # body id -> [(Call, [target ids])]
        # trait method index: (trait path, method name) -> [body ids]
        self.trait_impls = {}
        for b in facts.all_bodies():
            t = b.d.get("impl_trait")
            if t and b.root == b.id:
                self.trait_impls.setdefault((t, b.name), []).append(b.id)
        for b in facts.all_bodies():
            self._scan(b)

    def _targets(self, call):
        f = self.f
        c = call.c
        out = []
        res, decl = c.get("res"), c.get("fn")
        if c.get("selfclosure") and c["selfclosure"] in f.bodies:
            out.append(c["selfclosure"])
        if res and c.get("resk") != "virtual":
            # statically resolved (possibly to a body outside the workspace): no fan-out
            if res in f.bodies:
                out.append(res)
            return out
        tr = c.get("trait")
        if tr and decl:
            name = decl.rsplit("::", 1)[-1]
            # generic / virtual dispatch: all workspace impls + the trait's default body. Only for traits
            # defined in the workspace or by serde: fanning out `From::from` / `Clone::clone` / `fmt` to every
            # workspace impl would make everything reachable from everything.
            if tr.split("::", 1)[0] in FANOUT_CRATES:
                out += self.trait_impls.get((tr, name), [])
            if decl in f.bodies:
                out.append(decl)
            return out
        if decl and decl in f.bodies:
            out.append(decl)
        return out

    def _scan(self, b):
        f = self.f
        es = self.edges.setdefault(b.id, set())
        sites = self.callsites.setdefault(b.id, [])
        for c in mir.calls(b):
            tg = self._targets(c)
            sites.append((c, tg))
            es.update(tg)
            for a in c.args:
                k = mir.op_const(a)
                if k and k.get("fn") and k["fn"] in f.bodies:
                    es.add(k["fn"])
        for bi, i, pl, rv, ln in mir.assignments(b):
            if rv[0] == "agg" and rv[1] in ("closure", "coroutine", "coroutine_closure") and rv[2] in f.bodies:
                es.add(rv[2])
            for op in mir.rvalue_operands(rv):
                k = mir.op_const(op)
                if k and k.get("fn") and k["fn"] in f.bodies:
                    es.add(k["fn"])

    def reach(self, roots, stop=None, edge_ok=None):
        """ids of bodies reachable from roots (inclusive). `stop(id)` prunes; `edge_ok(src, dst)` filters edges."""
        seen = set()
        work = [r for r in roots]
        while work:
            x = work.pop()
            if x in seen:
                continue
            seen.add(x)
            if stop and stop(x):
                continue
            for y in self.edges.get(x, ()):
                if y not in seen and (edge_ok is None or edge_ok(x, y)):
                    work.append(y)
        return seen

    def callers(self, target_id):
        out = []
        for bid, sites in self.callsites.items():
            for c, tg in sites:
                if target_id in tg:
                    out.append((self.f.bodies.get(bid) or self.f.byid(bid), c))
        return out

    def path(self, src, dst):
        """one call path src -> dst (list of body ids) or None"""
        from collections import deque
        prev = {src: None}
        q = deque([src])
        while q:
            x = q.popleft()
            if x == dst:
                out = []
                while x is not None:
                    out.append(x)
                    x = prev[x]
                return out[::-1]
            for y in self.edges.get(x, ()):
                if y not in prev:
                    prev[y] = x
                    q.append(y)
        return None


_cache = {}


def get(facts):
    k = id(facts)
    if k not in _cache:
        _cache[k] = CallGraph(facts)
    return _cache[k]
