"""Edge-precise control-flow helpers and coroutine/task helpers shared by C29, C38, C39.

Nothing here matches text, line numbers, block numbers or local numbers; everything is phrased over
callee identity, types, field names and CFG edges.
"""
import re
from . import mir


# ------------------------------------------------------------------------------------------ edges
def reach_e(body, starts, avoid_blocks=(), avoid_edges=()):
    """Blocks reachable from `starts` (inclusive) without entering a block of `avoid_blocks` and
    without following an edge (src, dst) of `avoid_edges`. Normal (non-unwind) edges only."""
    s = mir.succs(body)
    ab = set(avoid_blocks)
    ae = set(avoid_edges)
    seen = set()
    work = [b for b in starts if b is not None and b not in ab]
    while work:
        b = work.pop()
        if b in seen:
            continue
        seen.add(b)
        for x in s[b]:
            if x in seen or x in ab or (b, x) in ae:
                continue
            work.append(x)
    return seen


def edge_dominates(body, edge, block):
    """Every path entry -> block uses the CFG edge (src, dst)."""
    return block not in reach_e(body, [0], avoid_edges=[edge])


def edges_dominate(body, edges, block):
    """Every path entry -> block uses one of the CFG edges."""
    return block not in reach_e(body, [0], avoid_edges=list(edges))


def bool_edges(body, sb):
    """((sb, true_target), (sb, false_target)) for a switch on a bool terminating block sb."""
    tt, ft = mir.bool_switch_edges(mir.term(body, sb))
    return (sb, tt), (sb, ft)


# Variant order of enums defined outside the workspace (the facts carry ADT definitions of workspace crates
# only). Lang items are fixed by the language; the two library enums are transcribed from the vendored
# sources (ordered-stream 0.2 `PollResult`, std `hash_map::Entry`). `check_ext_enums` cross-checks every row
# against the (variant name, index) pairs that downcast projections in the analysed MIR expose.
EXT_ENUMS = {
    "core::option::Option": ["None", "Some"],
    "core::result::Result": ["Ok", "Err"],
    "core::task::poll::Poll": ["Ready", "Pending"],
    "core::ops::control_flow::ControlFlow": ["Continue", "Break"],
    "ordered_stream::PollResult": ["Item", "NoneBefore", "Terminated"],
    "std::collections::hash::map::Entry": ["Occupied", "Vacant"],
}


def observed_variants(facts):
    """{adt: {idx: name}} read off downcast projections `(x as Variant).field` in all bodies."""
    cache = getattr(facts, "_cf_observed", None)
    if cache is not None:
        return cache
    obs = {}

    def scan(place):
        proj = place[1]
        for k, p in enumerate(proj):
            if isinstance(p, list) and p[0] == "as" and k + 1 < len(proj):
                q = proj[k + 1]
                if isinstance(q, list) and q[0] == "." and len(q) > 3 and q[3].endswith("::" + p[1]):
                    adt = q[3][: -len(p[1]) - 2]
                    obs.setdefault(adt, {}).setdefault(p[2], set()).add(p[1])

    for b in facts.all_bodies():
        for blk in b.blocks:
            for st in blk["s"]:
                if st[0] != "=":
                    continue
                scan(st[1])
                for op in mir.rvalue_operands(st[2]):
                    if op[0] in ("c", "m"):
                        scan(op[1])
    try:
        facts._cf_observed = obs
    except Exception:
        pass
    return obs


def check_ext_enums(ctx, facts, adts, rule="ANCHOR"):
    """Fail closed when the transcribed variant order of an external enum contradicts the analysed MIR."""
    obs = observed_variants(facts)
    for adt in adts:
        names = EXT_ENUMS.get(adt)
        bad = []
        for idx, seen in obs.get(adt, {}).items():
            if names is None or idx >= len(names) or seen != {names[idx]}:
                bad.append((idx, sorted(seen)))
        ctx.ob(rule, "external-enum-layout:" + adt, names is not None and not bad,
               "variant order %s agrees with the downcasts seen in MIR" % names if names and not bad else
               "variant table of %s disagrees with MIR downcasts %s" % (adt, bad), "-")


def variant_name(facts, adt, discr):
    n = facts.adt_variant_by_discr(adt, discr)
    if n is not None:
        return n
    names = EXT_ENUMS.get(adt)
    try:
        i = int(discr)
    except (TypeError, ValueError):
        return None
    if names is not None and 0 <= i < len(names):
        return names[i]
    return None


def variant_count(facts, adt):
    a = facts.adts.get(adt)
    if a:
        return len(a["variants"])
    if adt in EXT_ENUMS:
        return len(EXT_ENUMS[adt])
    return None


def discr_switches(body, facts, adt=None):
    """Like mir.discr_switches, but variant names of the external enums in EXT_ENUMS are resolved too.
    yields (block, place, adt, {variant_name: target}, otherwise_target)."""
    for b, t in mir.switches(body):
        sc = mir.switch_scrutinee(body, b)
        if sc[0] != "discr":
            continue
        a = sc[2]
        if adt is not None and a != adt:
            continue
        arms = {}
        for v, tgt in t[3]:
            name = variant_name(facts, a, v)
            arms[name if name is not None else str(v)] = tgt
        yield b, sc[1], a, arms, t[4]


def variant_edges(body, facts, roots, adt, variant, only_deref=True):
    """CFG edges taken exactly when a value rooted in one of the locals `roots` has variant `variant`
    of enum `adt` (two-variant enums: the `otherwise` edge of a switch listing only the other variant
    counts). Returns (edges_of_variant, edges_of_other_variants, mixed_edges) where a mixed edge is an
    `otherwise` edge that the variant shares with other variants."""
    yes, no, mixed = [], [], []
    nvar = variant_count(facts, adt)
    for sb, place, adt_id, arms, other in discr_switches(body, facts):
        if adt_id != adt or place[0] not in roots:
            continue
        if only_deref and any(p != "*" for p in place[1]):
            continue
        live_other = not (mir.term(body, other)[0] == "unreach" and not mir.stmts(body, other))
        if variant in arms:
            yes.append((sb, arms[variant]))
            for v, t in arms.items():
                if v != variant:
                    no.append((sb, t))
            if live_other:
                no.append((sb, other))
        else:
            for v, t in arms.items():
                no.append((sb, t))
            if live_other:
                if nvar is not None and len(arms) == nvar - 1:
                    yes.append((sb, other))
                else:
                    mixed.append((sb, other))
    return yes, no, mixed


def call_test_edges(body, roots, true_names, false_names):
    """Edges of switches on `x.is_ok()`-style calls whose receiver is rooted in `roots`:
    returns (edges taken when a `true_names` predicate holds, edges when it does not)."""
    yes, no = [], []
    for sb, c, tt, ft, neg in mir.call_bool_switches(body):
        if not c.args:
            continue
        if not (set(mir.operand_locals(c.args[0])) & set(roots)):
            continue
        if c.is_(*true_names):
            yes.append((sb, tt))
            no.append((sb, ft))
        elif c.is_(*false_names):
            yes.append((sb, ft))
            no.append((sb, tt))
    return yes, no


# ------------------------------------------------------------------------------------------ types
def local_type(body, l):
    return body.locals[l][0] if l is not None and l < len(body.locals) else ""


def operand_type(body, op):
    """Type of an operand as printed by rustc ('' when unknown)."""
    if op[0] == "k":
        return op[1].get("ty", "")
    l, proj = op[1]
    ty = local_type(body, l)
    for p in proj:
        if isinstance(p, list) and p[0] == "." and len(p) > 4:
            ty = p[4]
        elif p == "*":
            ty = re.sub(r"^&(?:'\w+ )?(?:mut )?", "", ty)
        else:
            return ""
    return ty


_WEAK = ("alloc::sync::Weak<", "alloc::rc::Weak<", "zbus::connection::WeakConnection")


def strip_generic(ty, heads):
    """Remove every `head<...balanced...>` segment (for each head ending with '<') from a type string;
    heads without '<' are removed as plain words."""
    out = ty
    for h in heads:
        while True:
            i = out.find(h)
            if i < 0:
                break
            if not h.endswith("<"):
                out = out[:i] + "#" + out[i + len(h):]
                continue
            j = i + len(h)
            depth = 1
            while j < len(out) and depth:
                if out[j] == "<":
                    depth += 1
                elif out[j] == ">":
                    depth -= 1
                j += 1
            out = out[:i] + "#" + out[j:]
    return out


def mentions(ty, path):
    """type string mentions the def path `path` as a whole path (not as a prefix of a longer one)."""
    for m in re.finditer(re.escape(path), ty):
        e = m.end()
        s = m.start()
        if e < len(ty) and (ty[e].isalnum() or ty[e] == "_"):
            continue
        if ty[e:e + 2] == "::" and not ty[e:e + 3] == "::<":
            continue
        if s > 0 and (ty[s - 1].isalnum() or ty[s - 1] in "_:"):
            continue
        return True
    return False


class Strong:
    """Which types keep a zbus connection alive: `Connection`, `Arc<ConnectionInner>` and every workspace
    ADT that (transitively, not through Weak) has a field of such a type. Computed from the ADT facts."""
    CONN = "zbus::connection::Connection"
    INNER = "zbus::connection::ConnectionInner"

    def __init__(self, facts):
        self.f = facts
        strong = {self.CONN: "is the strong handle", self.INNER: "is the shared state"}
        changed = True
        while changed:
            changed = False
            for aid, a in facts.adts.items():
                if aid in strong or aid == "zbus::connection::WeakConnection":
                    continue
                for v in a["variants"]:
                    for fld in v["fields"]:
                        why = self._why(fld[1], strong)
                        if why:
                            strong[aid] = "field `%s: %s`" % (fld[0], fld[1][:80])
                            changed = True
                            break
                    if aid in strong:
                        break
        self.strong = strong

    @staticmethod
    def _why(ty, strong):
        t = strip_generic(ty, _WEAK)
        for s in strong:
            if s.split("::")[-1] in t and mentions(t, s):
                return s
        return None

    def holds(self, ty):
        """name of the strong ADT mentioned by type string `ty` (outside Weak<..>), else None.
        References count: a `&Connection` saved in a task proves a strong handle outlives the borrow."""
        return self._why(ty, self.strong)


# ------------------------------------------------------------------------------------------ coroutines
def coroutine_ctor(facts, co_body):
    """(parent body, block, aggregate rvalue) constructing the coroutine/closure `co_body`."""
    pid = co_body.d.get("parent")
    cands = [facts.bodies[pid]] if pid in facts.bodies else []
    for p in cands + list(facts.family(co_body)):
        for b, i, pl, rv, ln in mir.assignments(p):
            if rv[0] == "agg" and rv[1] in ("coroutine", "closure", "coroutine_closure") and rv[2] == co_body.id:
                return p, b, rv
    return None


def upvar_types(facts, co_body):
    """Types of the captured variables of a coroutine/closure, read off its construction site.
    None when the construction site is not in the facts."""
    c = coroutine_ctor(facts, co_body)
    if c is None:
        return None
    p, b, rv = c
    return [operand_type(p, op) for op in rv[4]]


def nested_coroutines(facts, co_body):
    """Coroutines constructed (transitively) inside `co_body` (e.g. the `async move` block a
    `#[instrument]`ed async fn wraps its real body into)."""
    out = []
    work = [co_body]
    seen = {co_body.id}
    while work:
        x = work.pop()
        for b, i, pl, rv, ln in mir.assignments(x):
            if rv[0] == "agg" and rv[1] == "coroutine" and rv[2] in facts.bodies and rv[2] not in seen:
                seen.add(rv[2])
                nb = facts.bodies[rv[2]]
                out.append(nb)
                work.append(nb)
    return out


def fn_coroutines(facts, fn_id):
    """All coroutine bodies of the family of the fn `fn_id`."""
    return [b for b in facts.children.get(fn_id, []) if b.kind == "coroutine"]


def real_coroutine(ctx, facts, fn_id, pred, what):
    """The coroutine in the family of async fn `fn_id` that satisfies `pred` (the body holding the user
    code; `#[instrument]` nests it one level deeper). Fails closed."""
    c = [b for b in fn_coroutines(facts, fn_id) if pred(b)]
    return ctx.one(c, what)


def macro_chain(x):
    return x or ""


def from_macro(x, names):
    x = x or ""
    return any(n in x for n in names)


TRACING = ("trace!", "debug!", "info!", "warn!", "error!", "event!", "span!", "instrument!", "valueset!",
           "level_enabled!", "info_span!", "trace_span!", "debug_span!")


# ------------------------------------------------------------------------------------------ what a task holds
_ASYNC_BLOCK = re.compile(r"\{(?:async block|async closure|closure|coroutine)@([^:{}]+):(\d+):(\d+): (\d+):(\d+)\}")
_ASYNC_FN = re.compile(r"\{async fn body of ([^{}]+?)\(\)\}")


def bodies_in_type(facts, ty):
    """Closure / coroutine bodies whose opaque type is mentioned in the type string `ty`
    (`{async block@file:l:c: l:c}` is matched by file and start position, `{async fn body of f()}` by path).
    Returns (found bodies, unresolved mentions)."""
    found, missing = [], []
    idx = getattr(facts, "_cf_span_index", None)
    if idx is None:
        idx = {}
        for b in facts.all_bodies():
            if b.kind in ("coroutine", "Closure", "closure"):
                idx.setdefault((b.file, b.span[0], b.span[1]), []).append(b)
        try:
            facts._cf_span_index = idx
        except Exception:
            pass
    for m in _ASYNC_BLOCK.finditer(ty):
        key = (m.group(1), int(m.group(2)), int(m.group(3)) - 1)
        bs = idx.get(key, [])
        if bs:
            found.extend(bs)
        else:
            missing.append(m.group(0))
    for m in _ASYNC_FN.finditer(ty):
        p = m.group(1)
        cands = [b for b in facts.children.get(p, []) if b.kind == "coroutine" and b.d.get("parent") == p]
        if not cands:
            # generic paths are printed with their arguments: compare without `::<...>` segments
            q = strip_generic(p.replace("::<", "<"), ("<",))
            for rid, kids in facts.children.items():
                if strip_generic(rid.replace("::<", "<"), ("<",)) == q:
                    cands = [b for b in kids if b.kind == "coroutine" and b.d.get("parent") == rid]
                    if cands:
                        break
        if cands:
            found.extend(cands)
        else:
            missing.append(m.group(0))
    return found, missing


def upvars(co_body):
    """[(name, type, field index)] of the captured variables of a closure/coroutine (from its debug info)."""
    out = []
    for name, place in co_body.d.get("dbg", []):
        if place[0] != 1:
            continue
        pr = [p for p in place[1] if p != "*"]
        if len(pr) >= 1 and isinstance(pr[0], list) and pr[0][0] == "." and str(pr[0][3]).startswith("upvar:"):
            out.append((name, pr[0][4], pr[0][1]))
    return out


def whole_moves(body, local):
    """points (block, idx) at which `local` is moved out as a whole (idx = len(stmts) for a call argument)."""
    out = []
    live = mir.live_blocks(body)
    for b, blk in enumerate(body.blocks):
        if b not in live or blk.get("c"):
            continue
        for i, st in enumerate(blk["s"]):
            if st[0] == "=":
                for op in mir.rvalue_operands(st[2]):
                    if st[2][0] not in ("ref", "rawptr", "discr") and op[0] == "m" and op[1][0] == local and not op[1][1]:
                        out.append((b, i))
        t = blk["t"]
        if t[0] == "call":
            for a in t[1]["args"]:
                if a[0] == "m" and a[1][0] == local and not a[1][1]:
                    out.append((b, len(blk["s"])))
    return out


def moved_out_before(body, local, block):
    """`local` has certainly been moved out as a whole when control reaches the terminator of `block`:
    some whole move dominates `block`, and every definition of `local` dominates that move."""
    defs = mir.defs_of(body, local)
    dpts = []
    for d in defs:
        if d[0] == "assign":
            dpts.append((d[1], d[2]))
        else:
            dpts.append(d[1].point)
    for mp in whole_moves(body, local):
        if not (mp[0] == block or mir.block_dominates(body, mp[0], block)):
            continue
        if all(mir.dominates(body, dp, mp) and dp != mp for dp in dpts):
            return True
    return False


def upvar_moved_out_before(body, field_idx, block):
    """The captured variable #field_idx was moved out of the coroutine state into a local before `block`;
    returns that local or None."""
    for b, i, pl, rv, ln in mir.assignments(body):
        if rv[0] == "use" and rv[1][0] == "m" and rv[1][1][0] == 1:
            pr = rv[1][1][1]
            if len(pr) == 1 and isinstance(pr[0], list) and pr[0][0] == "." and pr[0][1] == field_idx and \
                    str(pr[0][3]).startswith("upvar:") and not pl[1]:
                if b == block or mir.block_dominates(body, b, block):
                    return pl[0]
    return None


def strong_alive_at(facts, body, awt, strong, depth=0):
    """Strong connection handles that may be alive while coroutine `body` is suspended at `awt`:
    rustc's saved locals for that suspension point (a sound superset of the live ones), minus locals that
    were certainly moved out before; captured variables unless moved out; recursively the captured
    variables of not-yet-started futures/closures stored in those places.
    Returns [(description, type)]."""
    out = []
    yb = awt.yb
    for ty, name, ln in awt.saved:
        why = strong.holds(ty)
        nested, missing = bodies_in_type(facts, ty)
        if not why and not nested and not missing:
            continue
        cands = [l for l in range(len(body.locals)) if body.locals[l][0] == ty and body.locals[l][1] == name]
        if cands and all(moved_out_before(body, l, yb) for l in cands):
            continue
        if why:
            out.append(("local `%s`" % name, ty))
        if name == "__awaitee":
            continue  # the running inner future is examined by its own suspension points
        for nb in nested:
            out.extend(strong_captured(facts, nb, strong, depth + 1, "in `%s`: " % name))
        for m in missing:
            out.append(("local `%s`: opaque %s not found in the facts" % (name, m), ty))
    for name, ty, idx in upvars(body):
        why = strong.holds(ty)
        nested, missing = bodies_in_type(facts, ty)
        if not why and not nested and not missing:
            continue
        if upvar_moved_out_before(body, idx, yb) is not None:
            continue  # now a local; covered by the saved-locals pass
        if why:
            out.append(("captured `%s`" % name, ty))
        for nb in nested:
            out.extend(strong_captured(facts, nb, strong, depth + 1, "in captured `%s`: " % name))
        for m in missing:
            out.append(("captured `%s`: opaque %s not found in the facts" % (name, m), ty))
    return out


def strong_captured(facts, co_body, strong, depth=0, prefix=""):
    """Strong handles among the captured variables of a (not yet running) closure/coroutine, recursively."""
    out = []
    if depth > 6:
        return out
    for name, ty, idx in upvars(co_body):
        if strong.holds(ty):
            out.append((prefix + "captured `%s` of %s" % (name, co_body.id), ty))
        nested, missing = bodies_in_type(facts, ty)
        for nb in nested:
            out.extend(strong_captured(facts, nb, strong, depth + 1, prefix))
        for m in missing:
            out.append((prefix + "captured `%s`: opaque %s not found in the facts" % (name, m), ty))
    return out
