"""Backward value slices over zmir bodies (helpers for C11 / C13 / C14).

`sources(body, op)` answers "where may the value of this operand come from?", flow-insensitively,
looking through temporaries, copies, re-borrows, casts, the `?` desugaring and a vocabulary of
value-preserving conversion calls (`TRANSPARENT`).  It never looks at block / local numbers for
identity; results are reported as calls (by callee), constants, argument locals and field names.
"""
import re
from . import mir

# calls that pass their first argument through (possibly converting / unwrapping it)
TRANSPARENT = (
    "branch", "from_residual", "map_err", "map", "try_into", "try_from", "into", "from", "unwrap", "expect",
    "deref", "deref_mut", "clone", "as_ref", "as_mut", "borrow", "borrow_mut", "to_owned", "ok_or", "ok_or_else",
    "and_then", "as_str", "get", "unwrap_or", "unwrap_or_default", "unwrap_or_else", "into_iter", "collect", "ok",
    "as_deref", "as_slice", "as_mut_slice", "as_bytes", "new_display", "new_debug", "copied", "cloned", "to_string",
    "into_inner", "try_clone", "into_future",
)


class Sources:
    def __init__(self):
        self.calls = []      # terminal (non-transparent) calls whose result feeds the value
        self.through = []    # transparent calls passed on the way
        self.consts = []     # constant dicts
        self.args = set()    # argument locals reached
        self.fields = []     # (field name, owner adt) of every field projection read on the way
        self.binops = []     # binary ops passed
        self.aggs = []       # aggregates passed (rvalues)
        self.locals = set()  # every local visited
        self.places = []     # terminal places (args / multi-def user locals with projections)

    def field_names(self, owner=None):
        return [n for n, o in self.fields if owner is None or o == owner or (o or "").startswith(owner + "::")]

    def has_call(self, *suffixes):
        return [c for c in self.calls + self.through if c.is_(*suffixes)]

    def const_values(self):
        return [k.get("v") for k in self.consts if "v" in k]


def _proj_fields(place):
    return [(p[2], p[3]) for p in place[1] if isinstance(p, list) and p[0] == "."]


def sources(body, op, transparent=TRANSPARENT, extra_transparent=(), stop=None, follow_all_args=False):
    """Backward closure from operand `op`.  `stop(call)` true => the call is terminal even when its
    name is in the transparent vocabulary.  follow_all_args: follow every argument of transparent
    calls, not only the first (used for `and_then(x, closure)` style calls it does not matter)."""
    res = Sources()
    tr = tuple(transparent) + tuple(extra_transparent)
    seen = set()
    work = []

    def fpath(proj):
        return tuple(p[2] for p in proj if isinstance(p, list) and p[0] == ".")

    def push_op(o):
        if o[0] == "k":
            res.consts.append(o[1])
            return
        pl = o[1]
        res.fields.extend(_proj_fields(pl))
        key = (pl[0], fpath(pl[1]))
        if key not in seen:
            seen.add(key)
            work.append(key)
        for p in pl[1]:
            if isinstance(p, list) and p[0] == "[]" and (p[1], ()) not in seen:
                seen.add((p[1], ()))
                work.append((p[1], ()))

    push_op(op)
    argc = body.d["argc"]
    while work:
        l, path = work.pop()
        res.locals.add(l)
        if 0 < l <= argc:
            res.args.add(l)
        defs = mir.defs_of(body, l)
        for d in defs:
            if d[0] == "call":
                c = d[1]
                if c.is_(*tr) and not (stop and stop(c)):
                    res.through.append(c)
                    args = c.args if follow_all_args else c.args[:1]
                    for a in args:
                        push_op(a)
                else:
                    res.calls.append(c)
            else:
                # a write to one field of the local is a definition only of reads of that field
                # (or of the whole local): `(*_1.self).prev_seq = x` does not define `_1.self.other`
                dp = fpath(d[3][1])
                n = min(len(dp), len(path))
                if dp[:n] != path[:n]:
                    continue
                rv = d[4]
                k = rv[0]
                if k == "bin":
                    res.binops.append(rv[1])
                if k == "agg":
                    res.aggs.append(rv)
                for o in mir.rvalue_operands(rv):
                    push_op(o)
    return res


def feeds(body, op, pred, **kw):
    """calls satisfying `pred` among everything the operand's value may derive from"""
    s = sources(body, op, **kw)
    return [c for c in s.calls + s.through if pred(c)]


_LT = re.compile(r"<'[a-z_0-9]+>|'[a-z_0-9]+,\s*|,\s*'[a-z_0-9]+|&'[a-z_0-9]+ ")


def strip_lifetimes(ty):
    """`Foo<'a>` -> `Foo`, `&'a T` -> `&T`, `Cow<'f, X>` -> `Cow<X>`"""
    ty = re.sub(r"&'[a-z_0-9]+\s+", "&", ty)
    ty = re.sub(r"<'[a-z_0-9]+>", "", ty)
    ty = re.sub(r"'[a-z_0-9]+,\s*", "", ty)
    ty = re.sub(r",\s*'[a-z_0-9]+", "", ty)
    return ty


def agg_field(rv, name):
    """operand of the named field of an ADT aggregate rvalue (None when absent)"""
    names = rv[5] if len(rv) > 5 else None
    if not names or name not in names:
        return None
    return rv[4][names.index(name)]


def adt_aggregates(body, adt):
    """[(block, idx, rvalue, line)] of aggregates constructing `adt` (any variant)"""
    out = []
    for b, i, pl, rv, ln in mir.assignments(body):
        if rv[0] == "agg" and rv[1] == "adt" and rv[2] == adt:
            out.append((b, i, rv, ln))
    return out


def field_writes(body, owner, field=None):
    """assignments whose destination place projects field `field` of ADT `owner`:
    [(block, idx, place, rvalue, line, field_name)]"""
    out = []
    for b, i, pl, rv, ln in mir.assignments(body):
        for p in pl[1]:
            if isinstance(p, list) and p[0] == "." and p[3] == owner and (field is None or p[2] == field):
                out.append((b, i, pl, rv, ln, p[2]))
    return out


def field_reads(body, owner):
    """names of fields of ADT `owner` read anywhere in the body (operands of assignments and calls)"""
    out = set()
    for b, i, pl, rv, ln in mir.assignments(body):
        for o in mir.rvalue_operands(rv):
            p = mir.op_place(o)
            if p:
                for n, ow in _proj_fields(p):
                    if ow == owner:
                        out.add(n)
    for c in mir.calls(body):
        for a in c.args:
            p = mir.op_place(a)
            if p:
                for n, ow in _proj_fields(p):
                    if ow == owner:
                        out.add(n)
    return out


def err_blocks(body, facts=None):
    """blocks that construct a `Result::Err` / `Poll::Ready(Err)`-style error value or forward a `?` residual"""
    out = set()
    for b, i, pl, rv, ln in mir.assignments(body):
        if rv[0] == "agg" and rv[1] == "adt" and rv[2] == "core::result::Result" and rv[3] == "Err":
            out.add(b)
    for c in mir.calls(body):
        if c.is_("from_residual"):
            out.add(c.b)
    return out


def ok_blocks(body):
    out = set()
    for b, i, pl, rv, ln in mir.assignments(body):
        if rv[0] == "agg" and rv[1] == "adt" and rv[2] == "core::result::Result" and rv[3] == "Ok":
            out.add(b)
    return out


def resolve_bin(body, op, depth=0):
    """the binary rvalue an operand is a copy of (looking through `.0` of checked arithmetic)"""
    if op[0] == "k" or depth > 8:
        return None
    l, proj = op[1]
    d = mir.single_def(body, l)
    if not d or d[0] != "assign":
        return None
    rv = d[4]
    if rv[0] == "bin":
        if rv[1].endswith("WithOverflow"):
            ok = len(proj) == 1 and isinstance(proj[0], list) and proj[0][0] == "." and proj[0][1] == 0
            return rv if ok else None
        return rv if not proj else None
    if rv[0] == "use" and not proj:
        return resolve_bin(body, rv[1], depth + 1)
    return None


def is_add(rv):
    return rv is not None and rv[1] in ("Add", "AddWithOverflow")
