"""Helpers shared by the connection-level rules C19 / C20 / C37 (method-call replies, message
stream fan-out, match-rule subscriptions).

Small CFG / data-flow conveniences on top of zcheck.mir, plus the constructor<->drop pairing of
`message_stream::Inner` that both C20 and C37 need (`check_stream_pairing`)."""
from . import mir, awaits as aw

CONN = "zbus::connection::Connection"
INNER = "zbus::connection::ConnectionInner"
MS = "zbus::message_stream::MessageStream"
MS_INNER = "zbus::message_stream::Inner"
TYPE = "zbus::message::header::Type"


# ------------------------------------------------------------------------------------ generic
def coroutine_of(ctx, f, fn_id, what=None):
    """the coroutine body of `async fn fn_id` (fail closed)"""
    kids = [b for b in f.children.get(fn_id, []) if b.kind == "coroutine" and b.d.get("parent") == fn_id]
    if not kids:
        kids = [b for b in f.children.get(fn_id, []) if b.kind == "coroutine" and b.id == fn_id + "::{closure#0}"]
    return ctx.one(kids, what or ("coroutine of " + fn_id))


def family_bodies(f, root_id):
    out = []
    if root_id in f.bodies:
        out.append(f.bodies[root_id])
    out += [b for b in f.children.get(root_id, []) if b.id != root_id]
    return out


def wh(body, line):
    return "%s:%d" % (body.file, line)


def op_in(op, locs):
    return any(l in locs for l in mir.operand_locals(op))


def uses_of_field(body, field, owner=None):
    """(block, idx, dest_local, line) of every statement reading / borrowing a place that projects
    through `.field` (of ADT `owner`, variants included)"""
    out = []
    for b, i, pl, rv, ln in mir.assignments(body):
        for op in mir.rvalue_operands(rv):
            p = mir.op_place(op)
            if p and place_has_field(p, field, owner):
                out.append((b, i, pl[0], ln))
    return out


def place_has_field(place, field, owner=None):
    for pr in place[1]:
        if isinstance(pr, list) and pr[0] == "." and pr[2] == field:
            if owner is None or pr[3] == owner or pr[3].startswith(owner + "::"):
                return True
    return False


def field_locals(body, field, owner=None):
    return {d for _, _, d, _ in uses_of_field(body, field, owner)}


def bodies_touching_field(f, field, owner, crate="zbus"):
    """{root id: (body, line)} of bodies that read / write / borrow `.field` of `owner`"""
    out = {}
    for b in f.all_bodies(crate):
        for bi, i, pl, rv, ln in mir.assignments(b):
            hit = place_has_field(pl, field, owner)
            for op in mir.rvalue_operands(rv):
                p = mir.op_place(op)
                if p and place_has_field(p, field, owner):
                    hit = True
            if hit:
                out.setdefault(b.root, (b, ln))
        for c in mir.calls(b):
            for a in c.args:
                p = mir.op_place(a)
                if p and place_has_field(p, field, owner):
                    out.setdefault(b.root, (b, c.line))
    return out


def aggregates(body, adt, variant=None):
    """(block, idx, dest_place, rvalue, line) of aggregate constructions of `adt`(::variant)"""
    out = []
    for b, i, pl, rv, ln in mir.assignments(body):
        if rv[0] == "agg" and rv[1] == "adt" and rv[2] == adt and (variant is None or rv[3] == variant):
            out.append((b, i, pl, rv, ln))
    return out


def agg_field(rv, name):
    names = rv[5] if len(rv) > 5 else []
    if name in names:
        return rv[4][names.index(name)]
    return None


def is_agg(body, op, adt, variant=None):
    """operand is (through temporaries) an aggregate `adt::variant`; returns the rvalue or None"""
    o = mir.origin(body, op)
    if o[0] == "rv" and o[1][0] == "agg" and o[1][1] == "adt" and o[1][2] == adt and (variant is None or o[1][3] == variant):
        return o[1]
    return None


def exits_reachable(body, starts, avoid=()):
    """normal-return blocks reachable from `starts` without entering `avoid`"""
    r = mir.reachable(body, starts, avoid=avoid)
    return [b for b in r if mir.term(body, b)[0] == "ret"]


def sole_pred(body, target, pred):
    """`target` is entered only from block `pred` (so being dominated by `target` == having taken that edge)"""
    return mir.preds(body)[target] == [pred]


def edge_dominates(body, sw, target, b):
    """block b is reached only through the edge sw -> target"""
    return target is not None and sole_pred(body, target, sw) and mir.block_dominates(body, target, b)


def bool_switches_on_call(body, call):
    """switches whose scrutinee is the bool result of `call` (possibly negated): (block, true_t, false_t)"""
    out = []
    for sb, c, tt, ft, neg in mir.call_bool_switches(body):
        if c.b == call.b:
            out.append((sb, tt, ft))
    return out


def place_switches(body, local):
    """switches directly on a place rooted in `local` or on the discriminant of such a place:
    (block, term, place)"""
    out = []
    for sb, t in mir.switches(body):
        op = t[1]
        p = mir.op_place(op)
        if p and p[0] == local and p[1]:
            out.append((sb, t, p))
            continue
        sc = mir.switch_scrutinee(body, sb)
        if sc[0] == "discr" and sc[1][0] == local:
            out.append((sb, t, sc[1]))
    return out


STD_VARIANTS = {
    "core::option::Option": {0: "None", 1: "Some"},
    "core::result::Result": {0: "Ok", 1: "Err"},
    "core::task::poll::Poll": {0: "Ready", 1: "Pending"},
    "core::ops::control_flow::ControlFlow": {0: "Continue", 1: "Break"},
    "std::collections::hash::map::Entry": {0: "Occupied", 1: "Vacant"},
}


def variant_names(body, f, adt):
    """{discriminant: variant name} of an enum: from the facts for workspace ADTs, from the (stable) std
    definitions for the five std enums above, else learnt from the downcast projections
    `(x as Variant).field` of this body (variant index == discriminant for field-carrying Rust enums
    without explicit discriminants). Unknown variants keep their number."""
    a = f.adts.get(adt)
    if a:
        return {int(v["discr"]): v["name"] for v in a["variants"]}
    if adt in STD_VARIANTS:
        return dict(STD_VARIANTS[adt])
    out = {}

    def scan(place):
        pr = place[1]
        for k in range(len(pr) - 1):
            x, y = pr[k], pr[k + 1]
            if isinstance(x, list) and x[0] == "as" and isinstance(y, list) and y[0] == "." and y[3] == "%s::%s" % (adt, x[1]):
                out[int(x[2])] = x[1]
    for blk in body.blocks:
        for st in blk["s"]:
            if st[0] != "=":
                continue
            scan(st[1])
            for op in mir.rvalue_operands(st[2]):
                p = mir.op_place(op)
                if p:
                    scan(p)
    return out


def discr_arms(body, f, sb):
    """(place, adt, {variant name (or str(discr) when unknown): target}, otherwise) for the discriminant
    switch ending block sb"""
    sc = mir.switch_scrutinee(body, sb)
    if sc[0] != "discr":
        return None
    t = mir.term(body, sb)
    names = variant_names(body, f, sc[2])
    arms = {}
    for v, tgt in t[3]:
        arms[names.get(v, str(v)) if isinstance(v, int) else str(v)] = tgt
    return sc[1], sc[2], arms, t[4]


def arm_context(body, f, local, blk):
    """variant names of all enum-match arms on places rooted in `local` that block `blk` lies under
    (arm target entered only from its switch and dominating blk)"""
    out = set()
    for sb, t, place in place_switches(body, local):
        arms = discr_arms(body, f, sb)
        if not arms:
            continue
        for name, tgt in arms[2].items():
            if sole_pred(body, tgt, sb) and mir.block_dominates(body, tgt, blk):
                out.add(name)
        other = arms[3]
        if other is not None and not mir.otherwise_is_unreachable(body, sb):
            rest = set(variant_names(body, f, arms[1]).values()) - set(arms[2])
            if len(rest) == 1 and sole_pred(body, other, sb) and mir.block_dominates(body, other, blk):
                out.add(rest.pop())
    return out


def in_cycle(body, b):
    """block b can reach itself"""
    s = mir.succs(body)
    return b in mir.reachable(body, s[b])


def const_strs(call):
    out = []
    for a in call.args:
        k = mir.op_const(a)
        if k is not None and isinstance(k.get("v"), str):
            out.append(k["v"])
    return out


def call_strs(body, call):
    """string constants among the arguments of a call (directly or wrapped in Some(..))"""
    out = []
    for a in call.args:
        k = mir.resolve_const(body, a) if a[0] != "k" else a[1]
        if k is not None and isinstance(k.get("v"), str):
            out.append(k["v"])
            continue
        o = mir.origin(body, a)
        if o[0] == "rv" and o[1][0] == "agg":
            for x in o[1][4]:
                kk = mir.op_const(x)
                if kk is not None and isinstance(kk.get("v"), str):
                    out.append(kk["v"])
    return out


def strip_clone(body, op, depth=0):
    """The user variable / argument (else the last temporary) an operand's value comes from, looking
    through copies, moves, (re-)borrows, derefs, `Clone::clone`, `Into::into`, `to_owned`, `Deref::deref`
    and `Some(..)` wrappers. Stops at the first user-named local."""
    if op[0] == "k":
        return None
    l, proj = op[1][0], op[1][1]
    if any(p != "*" for p in proj):
        return l
    if depth > 16 or body.locals[l][1] is not None or (0 < l <= body.d["argc"]):
        return l
    d = mir.single_def(body, l)
    if d is None:
        return l
    if d[0] == "call":
        c = d[1]
        if c.is_("clone", "into", "to_owned", "deref", "deref_mut", "from", "borrow", "as_ref") and len(c.args) == 1:
            return strip_clone(body, c.args[0], depth + 1)
        return l
    rv = d[4]
    if rv[0] == "use":
        return strip_clone(body, rv[1], depth + 1)
    if rv[0] in ("ref", "rawptr"):
        return strip_clone(body, ["c", rv[2]], depth + 1)
    if rv[0] == "cast":
        return strip_clone(body, rv[2], depth + 1)
    if rv[0] == "agg" and rv[1] == "adt" and rv[2] == "core::option::Option" and rv[3] == "Some":
        return strip_clone(body, rv[4][0], depth + 1)
    return l


def awaited_calls(f, body):
    """{call block: Await} for calls whose returned future is awaited in this coroutine"""
    out = {}
    for a in aw.awaits(f, body):
        if a.call is not None:
            out[a.call.b] = a
    return out


def callers_of(f, *suffixes, crate="zbus"):
    out = []
    for b in f.all_bodies(crate):
        for c in mir.calls_to(b, *suffixes):
            out.append((b, c))
    return out


# ------------------------------------------------------------------------------------ stream ctor <-> drop pairing
def check_stream_pairing(ctx, f, rule="S-CTOR", drop_rule="S-DROP"):
    """Every construction of message_stream::Inner that carries a match rule is paired with an
    add_match of that rule; every drop path hands the rule (moved out with take()) to remove_match.

    S-CTOR  per aggregate of `message_stream::Inner`: match_rule is None, or the constructor is the
            pass-through `for_subscription_channel` whose callers pass None or pair the rule with a
            dominating `add_match(rule)` whose receiver is the one handed to the stream.
    S-DROP  `<Inner as Drop>::drop` and `MessageStream::async_drop` move the rule out with
            Option::take and pass it to queue_remove_match / remove_match on the Some arm;
            queue_remove_match spawns remove_match(rule) and detaches the task."""
    ctors = []
    for b in f.all_bodies("zbus"):
        for bi, i, pl, rv, ln in aggregates(b, MS_INNER):
            ctors.append((b, bi, rv, ln))
    ctx.floor(rule, "constructions of message_stream::Inner", len(ctors), 2)
    passthrough = set()
    for b, bi, rv, ln in ctors:
        op = agg_field(rv, "match_rule")
        if op is None:
            ctx.ob(rule, "ctor:" + b.root, False, "no match_rule operand in the aggregate", wh(b, ln))
            continue
        if is_agg(b, op, "core::option::Option", "None") is not None:
            ctx.ob(rule, "ctor:" + b.root, True, "stream without a rule (match_rule: None): nothing to pair", wh(b, ln))
            continue
        o = mir.origin(b, op)
        if o[0] == "place" and not o[1][1] and 0 < o[1][0] <= b.d["argc"] and b.kind != "coroutine":
            passthrough.add(b.id)
            ctx.ob(rule, "ctor:" + b.root, True, "rule is the caller's argument `%s`; callers are checked" % mir.local_name(b, o[1][0]), wh(b, ln))
            continue
        # anything else creates a second owner of a rule without subscribing
        adds = [c for c in mir.calls(b) if c.is_("Connection::add_match")]
        ctx.ob(rule, "ctor:" + b.root, False,
               "a stream carrying a match rule is created without add_match (%d add_match calls in this body): "
               "dropping it removes a subscription it never added" % len(adds), wh(b, ln))
    for pid in sorted(passthrough):
        sites = callers_of(f, pid)
        ctx.floor(rule, "callers of " + pid, len(sites), 2)
        for b, c in sites:
            rop = c.args[1]
            key = "caller:%s" % b.root
            if is_agg(b, rop, "core::option::Option", "None") is not None:
                ctx.ob(rule, key, True, "passes no rule", c.where)
                continue
            rl = strip_clone(b, rop)
            adds = [a for a in mir.calls(b) if a.is_("Connection::add_match")]
            good = False
            why = "no add_match of the same rule dominates the construction"
            for a in adds:
                al = strip_clone(b, a.args[1])
                if al is None or al != rl:
                    why = "add_match is called with a different rule"
                    continue
                if not mir.block_dominates(b, a.b, c.b):
                    continue
                der = mir.derives(b, {a.dest[0]})
                if not op_in(c.args[0], der):
                    why = "the receiver given to the stream is not the one returned by add_match"
                    continue
                good = True
            ctx.ob(rule, key, good, "rule `%s` subscribed by a dominating add_match whose receiver feeds the stream" % mir.local_name(b, rl)
                   if good else why, c.where)

    # ---- drop side
    drop = ctx.one(f.find(name="drop", adt=MS_INNER, trait="core::ops::drop::Drop"), "<message_stream::Inner as Drop>::drop", drop_rule)
    adrop_fn = ctx.one([b for b in f.find(name="async_drop", adt=MS) if b.root == b.id], "MessageStream::async_drop", drop_rule)
    adrop = [b for b in family_bodies(f, adrop_fn.id) if mir.calls_to(b, "Connection::remove_match")]
    ctx.need(adrop, "body of MessageStream::async_drop calling remove_match", drop_rule)
    for body, callee, tag in [(drop, "Connection::queue_remove_match", "Inner::drop")] + [(b, "Connection::remove_match", "async_drop") for b in adrop]:
        rms = mir.calls_to(body, callee)
        ctx.floor(drop_rule, "%s calls in %s" % (callee, tag), len(rms), 1)
        takes = [c for c in mir.calls(body) if c.is_("Option::<T>::take", "take") and "Option" in c.callee]
        took = [c for c in takes if _arg_is_field(body, c.args[0], "match_rule")]
        ctx.ob(drop_rule, tag + ":takes-rule", bool(took), "the rule is moved out of the stream with Option::take (a later drop sees None)"
               if took else "match_rule is not take()n before removal", body.where)
        for c in rms:
            ok = False
            for t in took:
                # rule argument = payload of the Some arm of the take() result
                der = mir.derives(body, {t.dest[0]}, through_calls=False)
                if op_in(c.args[1], der):
                    for sb, term, place in place_switches(body, t.dest[0]):
                        arms = discr_arms(body, f, sb)
                        if arms and "Some" in arms[2] and mir.block_dominates(body, arms[2]["Some"], c.b):
                            ok = True
            ctx.ob(drop_rule, tag + ":removes-taken-rule", ok,
                   "%s receives the taken rule on the Some arm" % callee if ok else "%s is not fed by the take()n rule under its Some arm" % callee, c.where)
    # queue_remove_match: spawn(remove_match(rule)).detach()
    q = ctx.one(f.find(name="queue_remove_match", adt=CONN, trait=""), "Connection::queue_remove_match", drop_rule)
    fam = family_bodies(f, q.id)
    inner = [b for b in fam if b.id != q.id and mir.calls_to(b, "Connection::remove_match")]
    ctx.ob(drop_rule, "queue:calls-remove_match", bool(inner), "the queued future calls remove_match" if inner else "queued future does not call remove_match", q.where)
    for b in inner:
        for c in mir.calls_to(b, "Connection::remove_match"):
            o = mir.origin(b, c.args[1])
            cap = o[0] == "place" and "rule" in mir.place_fields(o[1]) or (o[0] == "place" and mir.local_name(b, o[1][0]) == "rule")
            awd = c.b in awaited_calls(f, b)
            ctx.ob(drop_rule, "queue:removes-captured-rule", cap and awd, "remove_match(captured rule) is awaited inside the spawned future"
                   if cap and awd else "remove_match argument is not the captured rule, or the call is not awaited", c.where)
    sp = [c for c in mir.calls(q) if c.is_("Executor::<'a>::spawn", "spawn") and "Executor" in c.callee]
    ctx.floor(drop_rule, "Executor::spawn calls in queue_remove_match", len(sp), 1)
    for c in sp:
        der = mir.derives(q, {c.dest[0]}, through_calls=False)
        det = [d for d in mir.calls(q) if d.is_("detach") and op_in(d.args[0], der)]
        ctx.ob(drop_rule, "queue:task-detached", bool(det), "the spawned removal task is detached (dropping a Task cancels it)"
               if det else "spawned removal task is dropped (= cancelled) instead of detached", c.where)
        # the spawned future contains the coroutine that calls remove_match, and captures the parameter rule
        cor = [(bi, rv) for bi, i, pl, rv, ln in mir.assignments(q) if rv[0] == "agg" and rv[1] in ("coroutine", "closure") and rv[2] in {b.id for b in inner}]
        okc = False
        for bi, rv in cor:
            if any(mir.root_local(q, o) is not None and mir.local_name(q, mir.root_local(q, o)) == "rule" for o in rv[4]):
                okc = True
        ctx.ob(drop_rule, "queue:future-captures-rule", okc, "the spawned future captures the `rule` parameter" if okc else
               "the future that calls remove_match does not capture the rule parameter", c.where)


def _arg_is_field(body, op, field):
    o = mir.origin(body, op)
    if o[0] in ("place", "ref"):
        return field in mir.place_fields(o[1])
    return False
