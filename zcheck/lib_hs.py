"""Helpers shared by the SASL-handshake rule modules (C16, C17).

  canon / pkey       canonical, hashable form of a MIR place (looks through single-definition copies,
                     re-borrows and tuple packing; never through a copy of a re-assigned local)
  VarFacts           forward dataflow: for every block, which enum variants (or bool values) each
                     canonical place can still hold there, learnt from the `SwitchInt` edges taken and
                     from enum aggregates assigned.  Non-relational (one set per place), killed by
                     re-assignment and, for places behind a pointer or whose address was taken
                     mutably, by every call / yield that could write through a `&mut`.
                     An edge whose refined set is empty is infeasible and is not followed.
  returns()          classification of every definition of the return place of a Result-returning
                     body: Ok aggregate / Err aggregate / `?` residual / awaited or called callee
  result_locals / try_of   link a call of an (async) fn to the locals carrying its (awaited) result and to
                     the `?` applied to it
  code_bodies()      bodies of a fn family (the fn, its coroutine, the `#[instrument]` inner coroutine)
  upvar_source()     traces a captured variable of a closure/coroutine to the operand captured
  panic_sites() / panic_audit()   enumeration of panic-capable constructs of a body (R-PANIC) with a
                     provenance-based shape that does not mention local names or numbers; discharge by a
                     recognised guard or a reviewed table entry whose requirement is re-checked on the MIR
  rule_read_n / rule_wire   rules shared by C16 and C17 (exit condition of read_commands; keyword tables)
  Tagged             ctx proxy to repeat a rule set on a second configuration (K3) with prefixed keys
"""
from . import mir

STD_ENUMS = {
    "core::option::Option": ["None", "Some"],
    "core::result::Result": ["Ok", "Err"],
    "core::ops::control_flow::ControlFlow": ["Continue", "Break"],
    "core::task::poll::Poll": ["Ready", "Pending"],
}
BOOL = frozenset(["false", "true"])


# ------------------------------------------------------------------------------------------ families
def family(f, root_id):
    out = []
    if root_id in f.bodies:
        out.append(f.bodies[root_id])
    out += f.children.get(root_id, [])
    return out


def code_bodies(f, root_id, pred):
    """Members of the family of `root_id` (fn + nested closures/coroutines) satisfying pred."""
    return [b for b in family(f, root_id) if pred(b)]


def has_call(*suffixes):
    return lambda b: bool(mir.calls_to(b, *suffixes))


# ------------------------------------------------------------------------------------------ places
def _norm_proj(proj):
    out = []
    for p in proj:
        if p == "*":
            out.append("*")
        elif isinstance(p, list) and p[0] == ".":
            out.append((".", p[1]))
        elif isinstance(p, list) and p[0] == "as":
            out.append(("as", p[1]))
        elif isinstance(p, list) and p[0] == "[]":
            out.append(("[]", p[1]))
        else:
            out.append(("?", str(p)))
    return tuple(out)


def pkey(place):
    return (place[0], _norm_proj(place[1]))


def is_arg(body, l):
    return 0 < l <= body.d["argc"]


_DEFS = {}


def defs_index(body):
    """local -> definitions (same tuples as mir.defs_of), computed once per body"""
    k = id(body)
    ent = _DEFS.get(k)
    if ent is not None and ent[0] is body:
        return ent[1]
    idx = {}
    for b, i, pl, rv, ln in mir.assignments(body):
        if "*" in pl[1]:
            continue        # a write through a pointer held in the local does not define the local
        idx.setdefault(pl[0], []).append(("assign", b, i, pl, rv))
    for c in mir.calls(body):
        if "*" in c.dest[1]:
            continue
        idx.setdefault(c.dest[0], []).append(("call", c))
    _DEFS[k] = (body, idx)
    return idx


def defs_of(body, l):
    return defs_index(body).get(l, [])


def single_def(body, l):
    d = defs_of(body, l)
    if len(d) != 1:
        return None
    x = d[0]
    if (x[0] == "call" and not x[1].dest[1]) or (x[0] == "assign" and not x[3][1]):
        return x
    return None


def _stable(body, l):
    """a local whose value, once read, cannot be replaced by a later assignment: an argument that is
    never assigned, or a local with a single whole definition"""
    if is_arg(body, l):
        return not defs_of(body, l)
    return single_def(body, l) is not None


def canon(body, place, depth=0):
    """Canonical place: [local, projections]."""
    l, proj = place[0], list(place[1])
    while depth < 24:
        depth += 1
        if is_arg(body, l):
            break
        d = single_def(body, l)
        if d is None or d[0] != "assign":
            break
        rv = d[4]
        if rv[0] == "use":
            src = mir.op_place(rv[1])
            if src is None or not _stable(body, src[0]):
                break
            l, proj = src[0], list(src[1]) + proj
            continue
        if rv[0] in ("ref", "rawptr") and proj and proj[0] == "*":
            inner = rv[2]
            l, proj = inner[0], list(inner[1]) + proj[1:]
            continue
        if rv[0] == "agg" and rv[1] == "tuple" and proj and isinstance(proj[0], list) and proj[0][0] == ".":
            ops = rv[4]
            idx = proj[0][1]
            if idx < len(ops):
                src = mir.op_place(ops[idx])
                if src is not None and _stable(body, src[0]):
                    l, proj = src[0], list(src[1]) + proj[1:]
                    continue
            break
        break
    return [l, proj]


def ckey(body, place):
    return pkey(canon(body, place))


def op_key(body, op):
    p = mir.op_place(op)
    return ckey(body, p) if p is not None else None


def place_has_field(place, name, owner=None):
    for p in place[1]:
        if isinstance(p, list) and p[0] == "." and p[2] == name and (owner is None or p[3] == owner or p[3].startswith(owner + "::")):
            return True
    return False


def upvar_field(place):
    """(idx, name) when the place starts with a captured-variable field of the closure/coroutine self"""
    if place[0] == 1 and place[1]:
        p = place[1][0]
        if isinstance(p, list) and p[0] == "." and isinstance(p[3], str) and p[3].startswith("upvar:"):
            return p[1], p[2]
    return None


def upvar_source(f, body, place, depth=0):
    """Trace a place rooted in a captured variable to what the creator of the closure captured.
    Returns (creator_body, canonical place in the creator) following nested captures up to the
    enclosing fn; (body, canon(place)) when the place is not a capture."""
    cp = canon(body, place)
    uv = upvar_field(cp)
    if uv is None or depth > 6:
        return body, cp
    parent = f.bodies.get(body.d.get("parent") or "")
    if parent is None:
        return body, cp
    for b, i, pl, rv, ln in mir.assignments(parent):
        if rv[0] == "agg" and rv[1] in ("closure", "coroutine", "coroutine_closure") and rv[2] == body.id:
            ops = rv[4]
            if uv[0] < len(ops):
                src = mir.op_place(ops[uv[0]])
                if src is None:
                    return parent, None
                rest = cp[1][1:]
                # a by-reference capture adds a deref on the closure side: `(*_1.x)` <-> `&x`
                srcc = canon(parent, src)
                d = single_def(parent, src[0]) if not is_arg(parent, src[0]) else None
                if d is not None and d[0] == "assign" and d[4][0] == "ref" and rest and rest[0] == "*":
                    inner = d[4][2]
                    return upvar_source(f, parent, [inner[0], list(inner[1]) + list(rest[1:])], depth + 1)
                return upvar_source(f, parent, [srcc[0], list(srcc[1]) + list(rest)], depth + 1)
    return body, cp


# ------------------------------------------------------------------------------------------ variant facts
def _may_write(c):
    """Can this call write through a pointer it is given?  (argument types mention a mutable
    reference / raw pointer / a closure or future that may hold one)"""
    for t in c.c.get("argtys") or []:
        if "&mut" in t or "*mut" in t or "{closure" in t or "{async" in t or "{coroutine" in t or "impl " in t or "dyn " in t:
            return True
    if not c.c.get("argtys") and c.args:
        return True
    return False


class VarFacts:
    def __init__(self, f, body):
        self.f = f
        self.body = body
        self.n = len(body.blocks)
        self.escaped = set()
        for b, i, pl, rv, ln in mir.assignments(body):
            if rv[0] in ("ref", "rawptr") and rv[1] not in ("shared", "const", "not", "fake", "imm"):
                inner = rv[2]
                if "*" not in inner[1]:
                    self.escaped.add(inner[0])
        self._der = {}
        self.IN = [None] * self.n
        self.EDGE = {}
        self._run()

    # -- helpers
    def volatile(self, key):
        return "*" in key[1] or key[0] in self.escaped

    def universe(self, adt):
        if adt in STD_ENUMS:
            return frozenset(STD_ENUMS[adt])
        a = self.f.adts.get(adt)
        if a and a.get("kind") == "Enum":
            return frozenset(v["name"] for v in a["variants"])
        return None

    def vname(self, adt, val):
        if adt in STD_ENUMS:
            try:
                return STD_ENUMS[adt][int(val)]
            except (ValueError, IndexError):
                return str(val)
        n = self.f.adt_variant_by_discr(adt, val)
        return n if n is not None else str(val)

    @staticmethod
    def _kill_root(st, l):
        for k in [k for k in st if k[0] == l]:
            del st[k]

    def _kill_volatile(self, st, call=None):
        """forget facts about memory that may be written: all volatile keys, or (for a call) those whose
        root pointer / borrowed local flows into one of the call's arguments.  Memory behind a `&mut` or
        owned by a local can only be written through pointers derived from that root (Rust aliasing rules;
        interior mutability is not used for the enum-typed places tracked here)."""
        for k in [k for k in st if self.volatile(k)]:
            if call is not None:
                der = self._der.get(k[0])
                if der is None:
                    der = self._der[k[0]] = mir.derives(self.body, {k[0]})
                if not any(l in der for a in call.args for l in mir.operand_locals(a)):
                    continue
            del st[k]

    def _stmts(self, b, st):
        body = self.body
        for s in body.blocks[b]["s"]:
            if s[0] != "=":
                continue
            pl, rv = s[1], s[2]
            if "*" in pl[1]:
                self._kill_volatile(st)
                self._kill_root(st, pl[0])
            else:
                self._kill_root(st, pl[0])
            if rv[0] == "agg" and rv[1] == "adt" and rv[3] is not None:
                uni = self.universe(rv[2])
                if uni is not None and rv[3] in uni:
                    # keyed by the destination itself (a temporary that is later copied is found
                    # again through canon(), which ends at this defining aggregate)
                    st[pkey(pl) if "*" not in pl[1] else ckey(body, [pl[0], pl[1]])] = frozenset([rv[3]])
            elif rv[0] == "use" and mir.op_place(rv[1]) is not None:
                sk = ckey(body, mir.op_place(rv[1]))
                if sk in st and sk[0] != pl[0]:
                    st[pkey(pl) if "*" not in pl[1] else ckey(body, [pl[0], pl[1]])] = st[sk]
            elif rv[0] == "use" and mir.op_const(rv[1]) is not None and not pl[1]:
                k = mir.op_const(rv[1])
                if k.get("ty") == "bool" and isinstance(k.get("v"), bool):
                    st[(pl[0], ())] = frozenset(["true" if k["v"] else "false"])
        return st

    def state_at_term(self, b):
        """facts holding just before the terminator of block b, merged over all partitions
        (None: block unreachable)"""
        if self.IN[b] is None:
            return None
        j = None
        for st in self.states_at_term(b):
            j = self._join(j, st)
        return j

    def _switch_key(self, b):
        body = self.body
        t = body.blocks[b]["t"]
        sc = mir.switch_scrutinee(body, b)
        if sc[0] == "discr":
            return ("enum", ckey(body, sc[1]), sc[2])
        if t[2] == "bool":
            op = t[1]
            p = mir.op_place(op)
            if p is None:
                return ("const", mir.op_const(op), None)
            keys = [(ckey(body, p), False)]
            # look through `!x`
            cur = canon(body, p)
            hops = 0
            neg = False
            while hops < 4 and not cur[1] and not is_arg(body, cur[0]):
                d = single_def(body, cur[0])
                if d is None or d[0] != "assign":
                    break
                rv = d[4]
                if rv[0] == "un" and rv[1] == "Not" and mir.op_place(rv[2]) is not None:
                    neg = not neg
                    cur = canon(body, mir.op_place(rv[2]))
                    keys.append((pkey(cur), neg))
                    hops += 1
                    continue
                break
            return ("bool", keys, self._enum_comparison(cur, neg))
        return None

    def _const_variant(self, op):
        """(adt, variant) when the operand is (a reference to) a constant unit variant of an enum"""
        o = mir.origin(self.body, op)
        if o[0] == "const":
            pv = o[1].get("pv")
            if isinstance(pv, dict) and isinstance(pv.get("agg"), str) and not pv.get("items"):
                adt, _, var = pv["agg"].rpartition("::")
                return adt, var
        if o[0] == "rv" and o[1][0] == "agg" and o[1][1] == "adt" and o[1][3] is not None and not o[1][4]:
            return o[1][2], o[1][3]
        if o[0] in ("ref", "place") and not o[1][1]:
            d = single_def(self.body, o[1][0])
            if d is not None and d[0] == "assign" and d[4][0] == "agg" and d[4][1] == "adt" and d[4][3] is not None and not d[4][4]:
                return d[4][2], d[4][3]
        return None

    def _enum_comparison(self, cur, neg):
        """the bool in canonical place `cur` is the result of `x == <constant unit variant>` (or `!=`):
        -> (key of x, adt, variant, true_means_equal)"""
        if cur[1] or is_arg(self.body, cur[0]):
            return None
        d = single_def(self.body, cur[0])
        if d is None or d[0] != "call":
            return None
        c = d[1]
        if not (c.is_("eq", "ne") and "PartialEq" in (c.callee + c.declared) and len(c.args) == 2):
            return None
        for x, y in ((c.args[0], c.args[1]), (c.args[1], c.args[0])):
            cv = self._const_variant(y)
            xl = mir.op_local(x)
            if cv is None or xl is None:
                continue
            uni = self.universe(cv[0])
            if uni is None or cv[1] not in uni:
                continue
            px = canon(self.body, [xl, list(x[1][1]) + ["*"]])
            equal_when_true = c.is_("eq")
            if neg:
                equal_when_true = not equal_when_true
            return (pkey(px), cv[0], cv[1], equal_when_true)
        return None

    def _edges(self, b, st):
        """[(succ, state)] for the normal successors of b"""
        body = self.body
        t = body.blocks[b]["t"]
        k = t[0]
        out = []
        if k == "switch":
            sk = self._switch_key(b)
            targets = {}
            listed = []
            for v, tg in t[3]:
                targets.setdefault(tg, []).append(v)
                listed.append(v)
            succs = list(dict.fromkeys([tg for v, tg in t[3]] + [t[4]]))
            for tg in succs:
                ns = dict(st)
                feasible = True
                vals = targets.get(tg, [])
                is_other = tg == t[4]
                if sk is not None and sk[0] == "enum":
                    key, adt = sk[1], sk[2]
                    uni = self.universe(adt)
                    names = set(self.vname(adt, v) for v in vals)
                    if is_other:
                        if uni is None:
                            names = None
                        else:
                            names |= set(uni) - set(self.vname(adt, v) for v in listed)
                    if names is not None:
                        old = st.get(key)
                        new = frozenset(names) if old is None else frozenset(names) & old
                        if not new:
                            feasible = False
                        ns[key] = new
                elif sk is not None and sk[0] == "bool":
                    names = set("true" if v else "false" for v in vals)
                    if is_other:
                        names |= set(BOOL) - set("true" if v else "false" for v in listed)
                    for key, neg in sk[1]:
                        nm = frozenset(("false" if x == "true" else "true") for x in names) if neg else frozenset(names)
                        old = st.get(key)
                        new = nm if old is None else nm & old
                        if not new:
                            feasible = False
                        ns[key] = new
                    ec = sk[2]
                    if ec is not None and len(names) == 1:
                        ekey, adt, var, eq_when_true = ec
                        is_true = "true" in names
                        equal = is_true if eq_when_true else not is_true
                        uni = self.universe(adt)
                        vals = frozenset([var]) if equal else frozenset(uni) - frozenset([var])
                        old = st.get(ekey)
                        new = vals if old is None else vals & old
                        if not new:
                            feasible = False
                        ns[ekey] = new
                elif sk is not None and sk[0] == "const":
                    kv = sk[1].get("v") if sk[1] else None
                    if isinstance(kv, (bool, int)):
                        want = int(kv)
                        hit = [tg2 for v, tg2 in t[3] if int(v) == want]
                        real = hit[0] if hit else t[4]
                        if tg != real:
                            feasible = False
                if feasible:
                    out.append((tg, ns))
            return out
        if k == "call":
            c = t[1]
            if c["t"] is None:
                return out
            ns = dict(st)
            call = mir.Call(body, b, c)
            if "*" in c["dest"][1]:
                self._kill_volatile(ns)
            elif _may_write(call):
                self._kill_volatile(ns, call)
            self._kill_root(ns, c["dest"][0])
            out.append((c["t"], ns))
            return out
        if k == "yield":
            ns = dict(st)
            self._kill_volatile(ns)
            if isinstance(t[3], list) and t[3]:
                self._kill_root(ns, t[3][0])
            out.append((t[2], ns))
            return out
        for s in mir.term_succ(t):
            out.append((s, dict(st)))
        return out

    @staticmethod
    def _join(a, b):
        if a is None:
            return dict(b)
        out = {}
        for k, v in a.items():
            if k in b:
                out[k] = v | b[k]
        return out

    # Partitioned states: facts about the discriminants of *workspace* enums (Command, AuthMechanism,
    # ServerHandshakeStep, ...) are kept apart instead of being merged at control-flow joins: the state of
    # a block is a set of fact dictionaries, one per distinct combination of values of those "partition
    # keys"; all other keys (Option / ControlFlow / bool temporaries) are merged inside a partition.
    # This keeps `mech = External  =>  command != Data` style correlations that rustc's match lowering
    # relies on when several arms share a remainder block.
    MAX_PARTS = 48

    def _collect_partition_keys(self):
        keys = set()
        for b, t in mir.switches(self.body):
            sc = mir.switch_scrutinee(self.body, b)
            if sc[0] == "discr":
                a = self.f.adts.get(sc[2])
                if a and a.get("kind") == "Enum":
                    keys.add(ckey(self.body, sc[1]))
            elif t[2] == "bool":
                sk = self._switch_key(b)
                if sk is not None and sk[0] == "bool" and sk[2] is not None:
                    a = self.f.adts.get(sk[2][1])
                    if a and a.get("kind") == "Enum":
                        keys.add(sk[2][0])
        return keys

    def _sig(self, st):
        return tuple(sorted(((k, tuple(sorted(v))) for k, v in st.items() if k in self.pkeys), key=repr))

    def _add(self, s, ns):
        """merge state ns into the partition set of block s; True when something changed"""
        parts = self.INP[s]
        if parts is None:
            parts = self.INP[s] = {}
        sg = self._sig(ns)
        old = parts.get(sg)
        new = self._join(old, ns)
        if old is not None and new == old:
            return False
        parts[sg] = new
        if len(parts) > self.MAX_PARTS:
            allj = None
            for st in parts.values():
                allj = self._join(allj, st)
            parts.clear()
            parts[self._sig(allj)] = allj
        return True

    def _run(self):
        self.pkeys = self._collect_partition_keys()
        self.INP = [None] * self.n
        self.INP[0] = {(): {}}
        work = [0]
        inq = {0}
        guard = 0
        while work:
            b = work.pop(0)
            inq.discard(b)
            guard += 1
            if guard > 400000:
                raise RuntimeError("VarFacts did not converge on " + self.body.id)
            for st0 in list(self.INP[b].values()):
                st = self._stmts(b, dict(st0))
                for s, ns in self._edges(b, st):
                    self.EDGE[(b, s)] = True
                    if self.body.blocks[s].get("c"):
                        continue
                    if self._add(s, ns) and s not in inq:
                        work.append(s)
                        inq.add(s)
        for b in range(self.n):
            parts = self.INP[b]
            if parts is None:
                continue
            j = None
            for st in parts.values():
                j = self._join(j, st)
            self.IN[b] = j

    def states_at_term(self, b):
        """the partitioned facts holding just before the terminator of block b: a list of fact
        dictionaries, one per combination of workspace-enum values under which b is reached"""
        if self.INP[b] is None:
            return []
        return [self._stmts(b, dict(st)) for st in self.INP[b].values()]

    # -- queries
    def feasible_blocks(self):
        return {b for b in range(self.n) if self.IN[b] is not None}

    def possible(self, b, key, at_term=True):
        """set of values `key` may hold at block b (None = unknown / anything)"""
        st = self.state_at_term(b) if at_term else self.IN[b]
        if st is None:
            return frozenset()
        return st.get(key)

    def blocks_where(self, key, value):
        """blocks (feasible) at whose entry `key` may still be `value`"""
        out = set()
        for b in range(self.n):
            st = self.IN[b]
            if st is None:
                continue
            s = st.get(key)
            if s is None or value in s:
                out.add(b)
        return out

    def succ_feasible(self, b):
        return [s for (x, s) in self.EDGE if x == b]

    def reach(self, starts, avoid=(), within=None):
        """blocks reachable from starts along feasible edges, not entering `avoid`, staying in `within`"""
        avoid = set(avoid)
        seen = set()
        work = [s for s in starts if s not in avoid and (within is None or s in within)]
        succ = {}
        for (x, s) in self.EDGE:
            succ.setdefault(x, []).append(s)
        while work:
            b = work.pop()
            if b in seen:
                continue
            seen.add(b)
            for s in succ.get(b, []):
                if s in seen or s in avoid:
                    continue
                if within is not None and s not in within:
                    continue
                if self.body.blocks[s].get("c"):
                    continue
                work.append(s)
        return seen

    def enum_keys(self, adt):
        """canonical keys of all places whose discriminant (of `adt`) is switched on in this body"""
        out = {}
        for b, t in mir.switches(self.body):
            if self.IN[b] is None:
                continue
            sc = mir.switch_scrutinee(self.body, b)
            if sc[0] == "discr" and sc[2] == adt:
                out.setdefault(ckey(self.body, sc[1]), []).append(b)
            elif t[2] == "bool":
                sk = self._switch_key(b)
                if sk is not None and sk[0] == "bool" and sk[2] is not None and sk[2][1] == adt:
                    out.setdefault(sk[2][0], []).append(b)
        return out


_VF = {}


def vfacts(f, body):
    """memoised VarFacts(f, body)"""
    ent = _VF.get(id(body))
    if ent is not None and ent[0] is body:
        return ent[1]
    vf = VarFacts(f, body)
    _VF[id(body)] = (body, vf)
    return vf


# ------------------------------------------------------------------------------------------ awaits / `?`
def _is_poll(c):
    return c.declared.endswith("Future>::poll") or c.fnargs.endswith("Future>::poll") or c.is_("poll")


def result_locals(body, call):
    """locals carrying the (awaited) result of `call`: through into_future / pin / poll / moves,
    up to but not through any other call"""
    def stop(c):
        return not (c.is_("into_future", "new_unchecked") or _is_poll(c))
    return mir.derives(body, {call.dest[0]}, through_calls=True, stop_calls=stop)


def try_of(body, call):
    """the `Try::branch` call applied to the (awaited) result of `call`, or None"""
    rl = result_locals(body, call)
    for c in mir.calls(body):
        if c.is_("branch") and "Try" in c.callee + c.declared and c.args and mir.op_local(c.args[0]) in rl:
            return c
    return None


def continue_payload_key(body, br):
    return (br.dest[0], (("as", "Continue"), (".", 0)))


# ------------------------------------------------------------------------------------------ returns
def returns(body, depth=0):
    """Classify the definitions of the return place of a Result-returning body.
    -> list of (kind, block, info): kind in ok / err / residual / call / other.
       `call`: the value is the result of a call (info = Call), possibly awaited."""
    out = []
    seen = set()

    def from_local(l, proj, d):
        if (l, len(proj)) in seen or d > 8:
            return
        seen.add((l, len(proj)))
        for df in defs_of(body, l):
            if df[0] == "call":
                c = df[1]
                if c.is_("from_residual"):
                    out.append(("residual", c.b, c))
                elif _is_poll(c):
                    # result of awaiting: find the producing call
                    out.append(("call", c.b, awaited_origin(body, c)))
                else:
                    out.append(("call", c.b, c))
                continue
            _, b, i, pl, rv = df
            if rv[0] == "agg" and rv[1] == "adt" and rv[2] == "core::result::Result":
                out.append(("ok" if rv[3] == "Ok" else "err", b, rv))
            elif rv[0] == "use" and mir.op_place(rv[1]) is not None:
                src = mir.op_place(rv[1])
                from_local(src[0], src[1], d + 1)
            else:
                out.append(("other", b, rv))

    from_local(mir.RET, [], 0)
    return out


def awaited_origin(body, pollcall):
    """for a `Future::poll` call, the call that created the awaited future (or the poll call)"""
    # arg0 <- Pin::new_unchecked(&mut __awaitee); __awaitee <- into_future(x); x <- CALL f(..)
    cur = pollcall.args[0] if pollcall.args else None
    for _ in range(8):
        if cur is None:
            break
        o = mir.origin(body, cur)
        if o[0] == "call":
            c = o[1]
            if c.is_("new_unchecked", "into_future", "new") and c.args:
                cur = c.args[0]
                continue
            return c
        if o[0] in ("ref", "place"):
            l = o[1][0]
            defs = defs_of(body, l)
            if len(defs) == 1 and defs[0][0] == "assign" and defs[0][4][0] == "use":
                cur = defs[0][4][1]
                continue
            if len(defs) == 1 and defs[0][0] == "call":
                c = defs[0][1]
                if c.is_("new_unchecked", "into_future", "new") and c.args:
                    cur = c.args[0]
                    continue
                return c
        break
    return pollcall


# ------------------------------------------------------------------------------------------ misc
def const_arg(body, op):
    k = mir.resolve_const(body, op)
    return k.get("v") if k is not None and "v" in k else None


def agg_of(body, op, depth=0):
    """the aggregate rvalue an operand's value was built by (through moves), or None"""
    o = mir.origin(body, op)
    if o[0] == "rv" and o[1][0] == "agg":
        return o[1]
    return None


def writes_of_field(f, owner, field, crate="zbus"):
    """every assignment whose destination goes through field `owner.field`, and every aggregate of `owner`
    -> (body, block, idx, kind 'field'|'agg', rvalue/operand, line)"""
    out = []
    for b in f.all_bodies(crate):
        for bi, i, pl, rv, ln in mir.assignments(b):
            hit = False
            for k, p in enumerate(pl[1]):
                if isinstance(p, list) and p[0] == "." and p[2] == field and p[3] == owner:
                    hit = True
                    whole = k == len(pl[1]) - 1
                    out.append((b, bi, i, "field" if whole else "subfield", rv, ln))
            if not hit and rv[0] == "agg" and rv[1] == "adt" and rv[2] == owner:
                names = rv[5] if len(rv) > 5 else []
                if field in names:
                    out.append((b, bi, i, "agg", rv[4][names.index(field)], ln))
    return out


def mut_borrows_of_field(f, owner, field, crate="zbus"):
    out = []
    for b in f.all_bodies(crate):
        for bi, i, pl, rv, ln in mir.assignments(b):
            if rv[0] in ("ref", "rawptr") and rv[1] not in ("shared", "const", "not", "fake", "imm"):
                inner = rv[2]
                if inner[1]:
                    p = inner[1][-1]
                    if isinstance(p, list) and p[0] == "." and p[2] == field and p[3] == owner:
                        out.append((b, bi, i, ln))
    return out


# ------------------------------------------------------------------------------------------ R-PANIC
PANIC_CALL_SUFFIXES = ("unwrap", "expect", "unwrap_err", "expect_err", "unwrap_unchecked",
                       "index", "index_mut", "drain", "split_at", "split_at_mut", "split_off", "remove",
                       "swap_remove", "insert", "copy_from_slice", "clone_from_slice", "truncate_front",
                       "from_utf8_unchecked", "unreachable_unchecked", "get_unchecked", "get_unchecked_mut")
PANIC_FNS = ("core::panicking::", "std::rt::begin_panic", "core::option::expect_failed", "core::result::unwrap_failed",
             "std::process::abort", "std::process::exit")
LOG_MACROS = ("trace!", "debug!", "info!", "warn!", "error!", "event!", "span!", "instrument!", "valueset!")


def _from_logging(x):
    return bool(x) and any(m in x for m in LOG_MACROS)


def provenance(body, op, depth=0):
    """shape of an operand that does not depend on local names/numbers"""
    if op[0] == "k":
        k = op[1]
        return "const:%s" % (k.get("v") if "v" in k else k.get("ty"))
    if depth > 6:
        return "?"
    p = canon(body, op[1])
    l, proj = p
    flds = [x[2] for x in proj if isinstance(x, list) and x[0] == "."]
    dcs = [x[1] for x in proj if isinstance(x, list) and x[0] == "as"]
    tail = ""
    if dcs:
        tail += "@" + "/".join(dcs)
    named = [x for x in flds if not x.isdigit()]
    if named:
        tail += "." + ".".join(named)
    if is_arg(body, l):
        uv = upvar_field(p)
        return ("capture" if uv else "arg") + tail
    d = single_def(body, l)
    if d is None:
        return "var:%s%s" % (body.locals[l][0], tail)
    if d[0] == "call":
        c = d[1]
        if c.is_("branch") and "Try" in (c.callee + c.declared) and c.args:
            # `expr?`: describe expr
            t2 = tail.replace("@Continue", "", 1) if tail.startswith("@Continue") else tail
            return provenance(body, c.args[0], depth + 1) + "?" + t2
        if _is_poll(c):
            o = awaited_origin(body, c)
            t2 = tail.replace("@Ready", "", 1) if tail.startswith("@Ready") else tail
            return "await:%s%s" % (o.callee.rsplit("::", 1)[-1], t2)
        return "call:%s%s" % (c.callee.rsplit("::", 1)[-1], tail)
    rv = d[4]
    if rv[0] == "bin":
        op_ = rv[1].replace("WithOverflow", "")
        return "%s(%s,%s)%s" % (op_, provenance(body, rv[2], depth + 1), provenance(body, rv[3], depth + 1), tail)
    if rv[0] == "agg":
        return "%s(%s)%s" % ((rv[2] or rv[1]).rsplit("::", 1)[-1], ",".join(provenance(body, o, depth + 1) for o in rv[4]), tail)
    if rv[0] == "cast":
        return provenance(body, rv[2], depth + 1) + tail
    if rv[0] == "use":
        return provenance(body, rv[1], depth + 1) + tail
    if rv[0] in ("ref", "rawptr"):
        return "&" + provenance(body, ["c", rv[2]], depth + 1)
    return rv[0] + tail


def panic_sites(body):
    """-> list of (kind, shape, block, line, detail) for panic-capable constructs of the body that do
    not come from logging macros"""
    out = []
    live = mir.live_blocks(body)
    for b, blk in enumerate(body.blocks):
        if b not in live or blk.get("c"):
            continue
        t = blk["t"]
        if t[0] == "assert":
            if _from_logging(t[7] if len(t) > 7 else None):
                continue
            kind = t[3][0]
            if kind == "overflow":
                shape = "%s(%s,%s)" % (t[3][1], provenance(body, t[3][2]), provenance(body, t[3][3]))
            elif kind in ("bounds", "BoundsCheck"):
                shape = "[%s]" % ",".join(provenance(body, o) for o in t[3][1:] if isinstance(o, list))
            else:
                shape = ",".join(provenance(body, o) if isinstance(o, list) and o and o[0] in ("c", "m", "k") else str(o) for o in t[3][1:])
            out.append((kind, shape, b, t[6], t))
    for c in mir.calls(body):
        if _from_logging(c.c.get("x")):
            continue
        n = c.callee
        last = n.rsplit("::", 1)[-1]
        kind = None
        if any(n.startswith(p) for p in PANIC_FNS):
            x = c.c.get("x") or ""
            kind = "panic"
            shape = x.split("<")[0] if x else last
            out.append((kind, shape, c.b, c.line, c))
            continue
        if last in PANIC_CALL_SUFFIXES:
            if last in ("remove", "insert") and not ("Vec" in n or "VecDeque" in n or "String" in n):
                continue
            recv = c.c.get("argtys") or []
            rty = recv[0] if recv else ""
            shape = "%s(%s)" % (last, ",".join(provenance(body, a) for a in c.args))
            out.append((last, shape, c.b, c.line, c))
    return out


def sub_guarded(body, vf, site_block, lhs_op, k):
    """`x - k` cannot underflow at site_block: a dominating comparison of the same canonical place with a
    constant has established x >= k on every path (edge facts of VarFacts over the comparison result)."""
    p = mir.op_place(lhs_op)
    if p is None:
        return False
    xk = ckey(body, p)
    st = vf.state_at_term(site_block)
    if st is None:
        return True
    for sb, op, l, r, tt, ft, ln in mir.cmp_switches(body):
        lk = op_key(body, l)
        rk = op_key(body, r)
        cl, cr = const_arg(body, l), const_arg(body, r)
        var_left = lk == xk and isinstance(cr, int) and not isinstance(cr, bool)
        var_right = rk == xk and isinstance(cl, int) and not isinstance(cl, bool)
        if not (var_left or var_right):
            continue
        c = cr if var_left else cl
        o = op
        if var_right:
            o = {"Lt": "Gt", "Gt": "Lt", "Le": "Ge", "Ge": "Le"}.get(op, op)
        # which outcome of `x o c` implies x >= k ?
        implies = None
        if o == "Ge" and c >= k:
            implies = "true"
        elif o == "Gt" and c >= k - 1:
            implies = "true"
        elif o == "Lt" and c >= k:
            implies = "false"
        elif o == "Le" and c >= k - 1:
            implies = "false"
        elif o == "Ne" and c == 0 and k == 1:
            implies = "true"
        elif o == "Eq" and c == 0 and k == 1:
            implies = "false"
        elif o == "Eq" and c >= k:
            implies = "true"
        if implies is None:
            continue
        t = body.blocks[sb]["t"]
        sp = mir.op_place(t[1])
        if sp is None:
            continue
        got = st.get(ckey(body, sp))
        if got is not None and got == frozenset([implies]):
            return True
    return False


# ------------------------------------------------------------------------------------------ R-PANIC audit
HSMOD = "zbus::connection::handshake::"
_COMMON = HSMOD + "common::Common"

# Reviewed discharges for the code shared by both handshake sides.
# (fn root, construct, provenance shape) -> (invariant, requirement checked on the MIR or None)
COMMON_PANIC_OK = {
    (_COMMON + "::read_commands", "index", "index(&capture.self.recv_buffer,Sub(call:position@Some,const:1))"):
        ("index lf_index-1 < lf_index < len: lf_index was returned by position() on the same buffer "
         "(the subtraction itself is a separate site)", "position-some"),
    (_COMMON + "::read_commands", "index", "index(&capture.self.recv_buffer,const:0)"):
        ("a line feed was found in the buffer (position() returned Some), so it is not empty", "position-some"),
    (_COMMON + "::read_commands", "drain", "drain(&capture.self.recv_buffer,RangeToInclusive(call:position@Some))"):
        ("lf_index < len: returned by position() on the same buffer", "position-some"),
    (_COMMON + "::read_commands", "index", "index(&call:as_slice,RangeFrom(var:usize))"):
        ("the drained line holds lf_index+1 >= 1 bytes and start_index is only ever assigned 0 or 1", "index-var-01"),
    (_COMMON + "::read_commands", "overflow", "Add(var:usize,const:1)"):
        ("n_received_commands counts parsed lines, each at least 1 byte of a Vec: cannot reach usize::MAX", None),
    (_COMMON + "::read_commands", "index", "index(&call:from_elem,RangeTo(await:recvmsg?))"):
        ("ASSUMPTION on the transport: recvmsg returns at most buf.len()", None),
    (_COMMON + "::write_commands", "drain", "drain(&call:fold,RangeTo(await:sendmsg?))"):
        ("ASSUMPTION on the transport: sendmsg returns at most the length it was given", None),
    (_COMMON + "::read_command", "unwrap", "unwrap(call:next)"):
        ("read_commands(1) returns Ok only through the `n_received == n_commands` exit, i.e. with one command "
         "(checked: READ-N)", None),
}


def _req_position_some(f, body, vf, blk, info):
    for c in mir.calls(body):
        if c.is_("position") and vf.possible(blk, (c.dest[0], ())) == frozenset(["Some"]):
            return True
    return False


def _req_index_var_01(f, body, vf, blk, info):
    # info is the index Call; args[1] is RangeFrom { start: var }
    if not hasattr(info, "args") or len(info.args) < 2:
        return False
    a = agg_of(body, info.args[1])
    if a is None or not a[4]:
        return False
    p = mir.op_place(a[4][0])
    if p is None:
        return False
    l = mir.root_local(body, a[4][0])
    ds = defs_of(body, l)
    if not ds:
        return False
    for d in ds:
        if d[0] != "assign" or d[4][0] != "use":
            return False
        k = mir.op_const(d[4][1])
        if k is None or k.get("v") not in (0, 1) or isinstance(k.get("v"), bool):
            return False
    return True


PANIC_REQS = {"position-some": _req_position_some, "index-var-01": _req_index_var_01}


def panic_audit(ctx, f, scope, table, state_asserts=None, rule="PANIC"):
    """R-PANIC over the bodies whose root fn id contains one of `scope`.  Returns the number of sites."""
    n = 0
    used = set()
    vfs = {}
    state_asserts = state_asserts or {}

    def short(i):
        return i.replace(HSMOD, "")
    for b in f.all_bodies("zbus"):
        if not any(p in b.root for p in scope):
            continue
        mac = b.d.get("macro") or ""
        if "derive" in mac or (b.root.startswith("<") and (" as core::fmt::Debug>" in b.root or " as core::clone::Clone>" in b.root
                                                           or " as core::cmp::" in b.root)):
            continue
        for kind, shape, blk, line, info in panic_sites(b):
            n += 1
            root = b.root
            key = "%s:%s:%s" % (short(root), kind, shape)
            where = "%s:%d" % (b.file, line)
            vf = vfacts(f, b)
            if vf.IN[blk] is None:
                ctx.ob(rule, key, True, "statically unreachable", where)
                continue
            ent = table.get((root, kind, shape))
            if ent is not None:
                used.add((root, kind, shape))
                text, req = ent
                ok = True
                if req is not None:
                    ok = PANIC_REQS[req](f, b, vf, blk, info)
                ctx.ob(rule, key, ok, ("reviewed: " + text) if ok else
                       "the reviewed invariant (%s) needs `%s`, which no longer holds at this site" % (text, req), where)
                continue
            if kind == "overflow" and info[3][1] == "Sub":
                k = const_arg(b, info[3][3])
                if isinstance(k, int) and sub_guarded(b, vf, blk, info[3][2], k):
                    ctx.ob(rule, key, True, "guarded: a dominating comparison establishes the minuend >= %d" % k, where)
                    continue
            if kind == "panic" and shape in ("assert_eq!", "assert!", "debug_assert!", "debug_assert_eq!", "assert_ne!") \
                    and root in state_asserts:
                ctx.ob(rule, key, True, "state assertion: " + state_asserts[root], where)
                continue
            ctx.ob(rule, key, False,
                   "panic-capable construct without a recognised guard or reviewed invariant (%s %s)" % (kind, shape), where)
    for k in table:
        if any(p in k[0] for p in scope) and k not in used:
            ctx.note("R-PANIC table entry matches no site any more: %s" % (k,))
    return n


# ------------------------------------------------------------------------------------------ READ-N
def rule_read_n(ctx, f, rule="READ-N"):
    """Common::read_commands(n) returns Ok(v) only through the `received == n` test, `received` starts at 0 and
    grows by one per push onto v."""
    root = ctx.one(f.find(name="read_commands", adt=_COMMON, trait=""), "Common::read_commands")
    body = ctx.one(code_bodies(f, root.id, has_call("recvmsg")), "code body of Common::read_commands")
    vf = vfacts(f, body)
    oks = [(b, info) for kind, b, info in returns(body) if kind == "ok"]
    ctx.floor(rule, "Ok returns of read_commands", len(oks), 1)
    # comparisons counter == n_commands
    cmps = []
    for sb, op, l, r, tt, ft, ln in mir.cmp_switches(body):
        if op not in ("Eq", "Ge"):
            continue
        for a, b_ in ((l, r), (r, l)):
            pa = mir.op_place(a)
            if pa is None or mir.op_place(b_) is None:
                continue
            sbody, sp = upvar_source(f, body, pa)
            if sp is not None and sbody.id == root.id and sp[0] == 2 and not sp[1]:
                cmps.append((sb, mir.root_local(body, b_), ln))
    ctx.floor(rule, "comparison of the received count with n_commands", len(cmps), 1)
    if not cmps or not oks:
        return
    counters = {c[1] for c in cmps}
    for b, info in oks:
        st = vf.state_at_term(b) or {}
        good = False
        for sb, cl, ln in cmps:
            t = mir.term(body, sb)
            k = ckey(body, mir.op_place(t[1]))
            if st.get(k) == frozenset(["true"]):
                good = True
        ctx.ob(rule, "read_commands:Ok-only-when-count-reached", good,
               "Ok is returned only on the true edge of `received == n_commands`", "%s:%d" % (body.file, cmps[0][2]))
    pushes = [c for c in mir.calls(body) if c.is_("push") and "Vec" in c.callee]
    ctx.floor(rule, "push of a parsed command", len(pushes), 1)
    for cl in counters:
        ds = defs_of(body, cl)
        incs = set()
        shape = True
        for d in ds:
            if d[0] != "assign":
                shape = False
                continue
            rv = d[4]
            if rv[0] == "use" and mir.op_const(rv[1]) is not None and mir.op_const(rv[1]).get("v") == 0:
                continue
            src = mir.op_place(rv[1]) if rv[0] == "use" else None
            sd = single_def(body, src[0]) if src is not None else None
            if sd is not None and sd[0] == "assign" and sd[4][0] == "bin" and sd[4][1] in ("AddWithOverflow", "Add") and \
                    mir.root_local(body, sd[4][2]) == cl and const_arg(body, sd[4][3]) == 1:
                incs.add(d[1])
                continue
            shape = False
        ctx.ob(rule, "read_commands:counter-is-0-then-plus-1", shape and bool(incs),
               "the received count starts at 0 and only ever grows by 1", body.where)
        pb = {c.b for c in pushes}
        okb = {b for b, info in oks}
        s1 = set()
        for c in pushes:
            s1 |= vf.reach(vf.succ_feasible(c.b), avoid=incs)
        bad1 = s1 & (pb | okb)
        s2 = set()
        for ib in incs:
            s2 |= vf.reach(vf.succ_feasible(ib), avoid=pb)
        bad2 = s2 & incs
        ctx.ob(rule, "read_commands:one-push-per-increment", not bad1 and not bad2,
               "every pushed command is counted and every count has a pushed command", body.where)
    for b, info in oks:
        vecs = {canon(body, [mir.op_local(c.args[0]), ["*"]])[0] for c in pushes}
        ret = mir.root_local(body, info[4][0]) if info[4] else None
        ctx.ob(rule, "read_commands:returns-the-pushed-vector", ret in vecs, "the Vec returned is the one the commands were pushed to", body.where)


# ------------------------------------------------------------------------------------------ second configuration
class Tagged:
    """ctx proxy that prefixes every instance key (used to repeat the rules on K3 in the thorough tier)"""

    def __init__(self, ctx, tag):
        self._ctx = ctx
        self._tag = tag

    def __getattr__(self, name):
        return getattr(self._ctx, name)

    def ob(self, rule, key, ok, detail="", where=""):
        return self._ctx.ob(rule, self._tag + key, ok, detail, where)

    def floor(self, rule, what, n, minimum):
        return self._ctx.floor(rule, self._tag + what, n, minimum)

    def need(self, items, what, rule="ANCHOR"):
        return self._ctx.need(items, self._tag + what, rule)

    def one(self, items, what, rule="ANCHOR"):
        return self._ctx.one(items, self._tag + what, rule)


# ------------------------------------------------------------------------------------------ WIRE
# D-Bus specification, "Authentication protocol": command keywords and mechanism names on the wire.
COMMAND_WORDS = {"AUTH": "Auth", "CANCEL": "Cancel", "BEGIN": "Begin", "DATA": "Data", "ERROR": "Error",
                 "NEGOTIATE_UNIX_FD": "NegotiateUnixFD", "REJECTED": "Rejected", "OK": "Ok", "AGREE_UNIX_FD": "AgreeUnixFD"}
MECH_WORDS = {"EXTERNAL": "External", "ANONYMOUS": "Anonymous"}


def _fmt_first_piece(k):
    """leading literal of a format string constant: `&str` value, or rustc's packed format template
    (length-prefixed literal pieces, >= 0x80 = argument markers)"""
    v = k.get("v")
    if isinstance(v, str):
        return v
    if isinstance(v, dict) and "bytes" in v:
        bs = v["bytes"]
        if bs and bs[0] < 0x80 and len(bs) > bs[0]:
            try:
                return bytes(bs[1:1 + bs[0]]).decode()
            except UnicodeDecodeError:
                return None
        return ""
    return None


def parse_table(f, body, adt):
    """{literal: variant} for a `match s { "LIT" => Enum::Variant.. }` style parser: each aggregate of `adt`
    is built where exactly one string comparison with a literal has come out true"""
    vf = vfacts(f, body)
    eqs = []
    for c in mir.calls(body):
        if c.is_("eq") and "PartialEq" in (c.callee + c.declared) and len(c.args) == 2:
            for a in c.args:
                k = mir.op_const(a)
                if k is not None and isinstance(k.get("v"), str):
                    eqs.append((c, k["v"]))
    table, problems = {}, []
    for b, i, pl, rv, ln in mir.assignments(body):
        if rv[0] == "agg" and rv[1] == "adt" and rv[2] == adt:
            st = vf.state_at_term(b) or {}
            lits = sorted({lit for c, lit in eqs if st.get((c.dest[0], ())) == frozenset(["true"])})
            if len(lits) != 1:
                problems.append((rv[3], lits, ln))
                continue
            if lits[0] in table and table[lits[0]] != rv[3]:
                problems.append((rv[3], lits, ln))
            table[lits[0]] = rv[3]
    return table, problems, len(eqs)


def write_table(f, body, adt):
    """{variant: set(first words written)} for a `match self { Variant => write!(f, "WORD ..") }` writer,
    or a `match self { Variant => "WORD" }` table"""
    vf = vfacts(f, body)
    keys = vf.enum_keys(adt)
    if len(keys) != 1:
        return None
    key = list(keys)[0]
    heads = keys[key]
    a = f.adts[adt]
    out = {}
    for v in [x["name"] for x in a["variants"]]:
        within = vf.blocks_where(key, v)
        seen = vf.reach(heads, within=within) - set(heads)
        words = set()
        for b in seen:
            blk = body.blocks[b]
            ops = []
            for st in blk["s"]:
                if st[0] == "=":
                    ops += mir.rvalue_operands(st[2])
            if blk["t"][0] == "call":
                ops += blk["t"][1]["args"]
            for op in ops:
                k = mir.op_const(op)
                if k is None:
                    continue
                piece = _fmt_first_piece(k)
                if piece is None or piece == "":
                    continue
                words.add(piece.split(" ")[0])
        out[v] = words
    return out


def rule_wire(ctx, f, rule="WIRE"):
    """Keyword tables of the SASL wire format, parser and writer, against the specification."""
    cmd = HSMOD + "command::Command"
    mech = HSMOD + "auth_mechanism::AuthMechanism"
    for adt, oracle, nm in ((cmd, COMMAND_WORDS, "Command"), (mech, MECH_WORDS, "AuthMechanism")):
        fs = ctx.one(f.find(name="from_str", adt=adt, trait="core::str::traits::FromStr"), "<%s as FromStr>::from_str" % nm)
        table, problems, neq = parse_table(f, fs, adt)
        ctx.floor(rule, "%s::from_str: comparisons with a keyword" % nm, neq, len(oracle))
        for variant, lits, ln in problems:
            ctx.ob(rule, "%s::from_str:%s:one-keyword" % (nm, variant), False,
                   "%s::%s is built under keyword(s) %s" % (nm, variant, lits), "%s:%d" % (fs.file, ln))
        for word, variant in sorted(oracle.items()):
            got = table.get(word)
            ctx.ob(rule, "%s::from_str:%s" % (nm, word), got == variant,
                   "`%s` parses to %s::%s" % (word, nm, variant) if got == variant else
                   "`%s` parses to %s (specification: %s)" % (word, got, variant), fs.where)
        for word in sorted(set(table) - set(oracle)):
            ctx.ob(rule, "%s::from_str:extra:%s" % (nm, word), False, "keyword `%s` is not in the specification" % word, fs.where)
        # writer
        if nm == "Command":
            wr = ctx.one(f.find(name="fmt", adt=adt, trait="core::fmt::Display"), "<Command as Display>::fmt")
        else:
            wr = ctx.one(f.find(name="as_str", adt=adt, trait=""), "AuthMechanism::as_str")
        wt = write_table(f, wr, adt)
        if wt is None:
            ctx.ob(rule, "%s:writer:shape" % nm, False, "the writer does not match on self", wr.where)
            continue
        inv = {v: k for k, v in oracle.items()}
        for variant, words in sorted(wt.items()):
            want = inv.get(variant)
            ctx.ob(rule, "%s:writes:%s" % (nm, variant), words == {want},
                   "%s::%s is written as `%s`" % (nm, variant, want) if words == {want} else
                   "%s::%s is written as %s (specification: `%s`)" % (nm, variant, sorted(words), want), wr.where)
    # Display of AuthMechanism goes through as_str
    disp = ctx.one(f.find(name="fmt", adt=mech, trait="core::fmt::Display"), "<AuthMechanism as Display>::fmt")
    ctx.ob(rule, "AuthMechanism:Display-uses-as_str", bool(mir.calls_to(disp, "AuthMechanism::as_str")),
           "Display for AuthMechanism prints as_str()", disp.where)
