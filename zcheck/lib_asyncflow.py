"""Helpers shared by the proxy / name-bookkeeping rules (C31, C32, C36).

  ready_points(body, await)    where the value of an `.await` becomes available (the `Poll::Ready` arm of the
                               await desugaring of exactly that await), found by data flow, not by position
  param_source(f, body, op)    trace an operand back through copies, re-borrows and closure / coroutine captures
                               to the parameter of the enclosing function it comes from
  edge_dominates(body, s, t, b) every path from the entry to block b takes the CFG edge s->t
  controls(body, edge, b)      same, with the edge given as (switch block, target)
"""
from . import mir


# ------------------------------------------------------------------------------------------ awaits
def _rooted_in(body, op, locs, depth=0):
    """operand is (a pinned / re-borrowed reference to) one of the locals in `locs`"""
    if depth > 6:
        return False
    o = mir.origin(body, op)
    if o[0] in ("place", "ref"):
        return o[1][0] in locs
    if o[0] == "call" and o[1].args and o[1].is_("new_unchecked", "new", "as_mut", "deref_mut"):
        return _rooted_in(body, o[1].args[0], locs, depth + 1)
    return False


def into_future_call(body, a):
    for c in mir.calls(body):
        if c.c["sp"] == a.sp and c.is_("into_future"):
            return c
    return None


def ready_points(body, a):
    """[(block, stmt index, result local)]: the statements `result = move <poll result> as Ready.0` of
    the await `a` (zcheck.awaits.Await). Empty when the desugaring is not recognised (callers fail closed)."""
    c0 = into_future_call(body, a)
    if c0 is None:
        return []
    fut = c0.dest[0]
    holders = {fut}
    for b, i, pl, rv, ln in mir.assignments(body):
        if rv[0] == "use" and not pl[1] and mir.op_place(rv[1]) is not None and \
                mir.op_place(rv[1])[0] == fut and not mir.op_place(rv[1])[1]:
            holders.add(pl[0])
    polls = set()
    for c in mir.calls(body):
        if c.is_("poll") or "desugar:Await" in str(c.c.get("x") or ""):
            if c.args and _rooted_in(body, c.args[0], holders) and c is not c0 and not c.is_("new_unchecked", "into_future"):
                polls.add(c.dest[0])
    out = []
    for b, i, pl, rv, ln in mir.assignments(body):
        if rv[0] != "use":
            continue
        p = mir.op_place(rv[1])
        if p is None or p[0] not in polls or not p[1]:
            continue
        pr = p[1][0]
        if isinstance(pr, list) and pr[0] == "as" and pr[1] == "Ready":
            out.append((b, i, pl[0]))
    return out


def await_starts_after(body, later, earlier):
    """the await `later` starts (its future is first polled) only after the await `earlier` has completed,
    on every path"""
    rp = ready_points(body, earlier)
    c = into_future_call(body, later)
    if not rp or c is None:
        return False
    # every path to the start of `later` passes one of the ready points of `earlier`
    seen = mir.reachable(body, [0], avoid={b for b, i, l in rp})
    return c.b not in seen


def after_await(body, a, block):
    """every path to `block` passes a point where await `a` has completed"""
    rp = ready_points(body, a)
    if not rp:
        return False
    return block not in mir.reachable(body, [0], avoid={b for b, i, l in rp}) or block in {b for b, i, l in rp}


# ------------------------------------------------------------------------------------------ captures
def _upvar(pr):
    return isinstance(pr, list) and pr[0] == "." and isinstance(pr[3], str) and pr[3].startswith("upvar:")


def _constructions(f, parent, child_id):
    out = []
    for b, i, pl, rv, ln in mir.assignments(parent):
        if rv[0] == "agg" and rv[1] in ("closure", "coroutine", "coroutine_closure") and rv[2] == child_id:
            out.append(rv)
    return out


def param_source(f, body, op, depth=0):
    """(body, local, projections) of the function parameter (or closure argument) an operand's value is
    a copy / move / (re)borrow / capture of; None when it is anything else."""
    if depth > 12 or op[0] == "k":
        return None
    o = mir.origin(body, op)
    if o[0] not in ("place", "ref"):
        return None
    l, proj = o[1][0], list(o[1][1])
    is_inner = body.kind in ("coroutine", "Closure", "closure") or body.d.get("parent")
    if l == 1 and is_inner and proj and _upvar(proj[0]):
        parent = f.byid(body.d.get("parent"))
        if parent is None:
            return None
        cons = _constructions(f, parent, body.id)
        if len(cons) != 1:
            return None
        ops = cons[0][4]
        idx = proj[0][1]
        if idx >= len(ops):
            return None
        return param_source(f, parent, ops[idx], depth + 1)
    if 0 < l <= body.d["argc"]:
        if is_inner and l == 1:
            return None
        return (body, l, proj)
    d = mir.single_def(body, l)
    if d is not None and d[0] == "assign" and d[4][0] == "use":
        src = d[4][1]
        if src[0] == "k":
            return None
        return param_source(f, body, ["c", [src[1][0], list(src[1][1])]], depth + 1)
    if d is not None and d[0] == "assign" and d[4][0] == "ref":
        return param_source(f, body, ["c", d[4][2]], depth + 1)
    return None


# ------------------------------------------------------------------------------------------ edges
def edge_dominates(body, src, tgt, block):
    """every path entry -> `block` takes the edge src->tgt"""
    s = mir.succs(body)
    seen = set()
    work = [0]
    while work:
        b = work.pop()
        if b in seen:
            continue
        seen.add(b)
        for x in s[b]:
            if b == src and x == tgt:
                continue
            if x not in seen:
                work.append(x)
    if block not in seen:
        # unreachable without the edge; make sure it is reachable at all
        return block in mir.live_blocks(body)
    return False


def edge_is_unique(body, src, tgt):
    """src has exactly one edge to tgt (a switch with two values going to the same block would make
    'the edge' ambiguous)"""
    return mir.succs(body)[src].count(tgt) == 1
