"""Helpers shared by the proxy / name-bookkeeping rules (C31, C32, C36).

  ready_points(body, await)    where the value of an `.await` becomes available (the `Poll::Ready` arm of the
                               await desugaring of exactly that await), found by data flow, not by position
  param_source(f, body, op)    trace an operand back through copies, re-borrows and closure / coroutine captures
                               to the parameter of the enclosing function it comes from
  edge_dominates(body, s, t, b) every path from the entry to block b takes the CFG edge s->t
  backslice(body, op)          data-only backward slice of an operand (consts / calls / places / params)
"""
from . import mir


# ------------------------------------------------------------------------------------------ awaits
def _rooted_in(body, op, locs, depth=0):
    """operand is (a pinned / re-borrowed reference to) one of the locals in `locs`"""
    if depth > 6:
        return False
    o = mir.origin(body, op)
    if o[0] in ("place", "ref"):
        return o[1][0] in locs
    if o[0] == "call" and o[1].args and o[1].is_("new_unchecked", "new", "as_mut", "deref_mut"):
        return _rooted_in(body, o[1].args[0], locs, depth + 1)
    return False


def into_future_call(body, a):
    for c in mir.calls(body):
        if c.c["sp"] == a.sp and c.is_("into_future"):
            return c
    return None


def ready_points(body, a):
    """[(block, stmt index, result local)]: the statements `result = move <poll result> as Ready.0` of
    the await `a` (zcheck.awaits.Await). Empty when the desugaring is not recognised (callers fail closed)."""
    c0 = into_future_call(body, a)
    if c0 is None:
        return []
    fut = c0.dest[0]
    holders = {fut}
    for b, i, pl, rv, ln in mir.assignments(body):
        if rv[0] == "use" and not pl[1] and mir.op_place(rv[1]) is not None and \
                mir.op_place(rv[1])[0] == fut and not mir.op_place(rv[1])[1]:
            holders.add(pl[0])
    polls = set()
    for c in mir.calls(body):
        if c.is_("poll") or "desugar:Await" in str(c.c.get("x") or ""):
            if c.args and _rooted_in(body, c.args[0], holders) and c is not c0 and not c.is_("new_unchecked", "into_future"):
                polls.add(c.dest[0])
    out = []
    for b, i, pl, rv, ln in mir.assignments(body):
        if rv[0] != "use":
            continue
        p = mir.op_place(rv[1])
        if p is None or p[0] not in polls or not p[1]:
            continue
        pr = p[1][0]
        if isinstance(pr, list) and pr[0] == "as" and pr[1] == "Ready":
            out.append((b, i, pl[0]))
    return out


def await_starts_after(body, later, earlier):
    """the await `later` starts (its future is first polled) only after the await `earlier` has completed,
    on every path"""
    rp = ready_points(body, earlier)
    c = into_future_call(body, later)
    if not rp or c is None:
        return False
    # every path to the start of `later` passes one of the ready points of `earlier`
    seen = mir.reachable(body, [0], avoid={b for b, i, l in rp})
    return c.b not in seen


def after_await(body, a, block):
    """every path to `block` passes a point where await `a` has completed"""
    rp = ready_points(body, a)
    if not rp:
        return False
    return block not in mir.reachable(body, [0], avoid={b for b, i, l in rp})


# ------------------------------------------------------------------------------------------ captures
def _upvar(pr):
    return isinstance(pr, list) and pr[0] == "." and isinstance(pr[3], str) and pr[3].startswith("upvar:")


def _constructions(f, parent, child_id):
    out = []
    for b, i, pl, rv, ln in mir.assignments(parent):
        if rv[0] == "agg" and rv[1] in ("closure", "coroutine", "coroutine_closure") and rv[2] == child_id:
            out.append(rv)
    return out


def param_source(f, body, op, depth=0):
    """(body, local, projections) of the function parameter (or closure argument) an operand's value is
    a copy / move / (re)borrow / capture of; None when it is anything else."""
    if depth > 12 or op[0] == "k":
        return None
    o = mir.origin(body, op)
    if o[0] not in ("place", "ref"):
        return None
    l, proj = o[1][0], list(o[1][1])
    is_inner = body.kind in ("coroutine", "Closure", "closure") or body.d.get("parent")
    if l == 1 and is_inner and proj and _upvar(proj[0]):
        parent = f.byid(body.d.get("parent"))
        if parent is None:
            return None
        cons = _constructions(f, parent, body.id)
        if len(cons) != 1:
            return None
        ops = cons[0][4]
        idx = proj[0][1]
        if idx >= len(ops):
            return None
        return param_source(f, parent, ops[idx], depth + 1)
    if 0 < l <= body.d["argc"]:
        if is_inner and l == 1:
            return None
        return (body, l, proj)
    d = mir.single_def(body, l)
    if d is not None and d[0] == "assign" and d[4][0] == "use":
        src = d[4][1]
        if src[0] == "k":
            return None
        return param_source(f, body, ["c", [src[1][0], list(src[1][1])]], depth + 1)
    if d is not None and d[0] == "assign" and d[4][0] == "ref":
        return param_source(f, body, ["c", d[4][2]], depth + 1)
    return None


# ------------------------------------------------------------------------------------------ edges
def edge_dominates(body, src, tgt, block):
    """every path entry -> `block` takes the edge src->tgt"""
    s = mir.succs(body)
    seen = set()
    work = [0]
    while work:
        b = work.pop()
        if b in seen:
            continue
        seen.add(b)
        for x in s[b]:
            if b == src and x == tgt:
                continue
            if x not in seen:
                work.append(x)
    if block not in seen:
        # unreachable without the edge; make sure it is reachable at all
        return block in mir.live_blocks(body)
    return False


def edge_is_unique(body, src, tgt):
    """src has exactly one edge to tgt (a switch with two values going to the same block would make
    'the edge' ambiguous)"""
    return mir.succs(body)[src].count(tgt) == 1


# ------------------------------------------------------------------------------------------ backward slice
def backslice(body, op, limit=400):
    """Data-only backward slice of an operand inside one body (over-approximate, flow-insensitive):
    returns {'consts': [const dicts], 'calls': [Call], 'places': [place], 'params': {locals}}.
    Everything the operand's value may have been computed from, through copies, borrows, aggregates,
    casts and call arguments."""
    out = {"consts": [], "calls": [], "places": [], "params": set()}
    seen_l = set()
    seen_c = set()
    work = [op]
    n = 0
    while work and n < limit:
        n += 1
        cur = work.pop()
        if cur[0] == "k":
            out["consts"].append(cur[1])
            continue
        o = mir.origin(body, cur)
        if o[0] == "const":
            out["consts"].append(o[1])
            continue
        if o[0] == "call":
            c = o[1]
            if id(c.c) not in seen_c:
                seen_c.add(id(c.c))
                out["calls"].append(c)
                work.extend(c.args)
            continue
        if o[0] == "rv":
            work.extend(mir.rvalue_operands(o[1]))
            continue
        pl = o[1]
        out["places"].append(pl)
        l = pl[0]
        for p in pl[1]:
            if isinstance(p, list) and p[0] == "[]":
                work.append(["c", [p[1], []]])
        if 0 < l <= body.d["argc"]:
            out["params"].add(l)
            continue
        if l in seen_l:
            continue
        seen_l.add(l)
        for d in mir.defs_of(body, l):
            if d[0] == "call":
                c = d[1]
                if id(c.c) not in seen_c:
                    seen_c.add(id(c.c))
                    out["calls"].append(c)
                    work.extend(c.args)
            else:
                rv = d[4]
                if rv[0] in ("ref", "rawptr", "discr"):
                    inner = rv[2] if rv[0] != "discr" else rv[1]
                    out["places"].append(inner)
                    work.append(["c", [inner[0], []]])
                else:
                    work.extend(mir.rvalue_operands(rv))
    return out


def slice_has_field(sl, name, owner_prefix):
    for pl in sl["places"]:
        for p in pl[1]:
            if isinstance(p, list) and p[0] == "." and p[2] == name and str(p[3]).startswith(owner_prefix):
                return True
    return False


def slice_has_call(sl, pred):
    return [c for c in sl["calls"] if pred(c)]


def _pv_strs(pv, out):
    """strings inside the extractor's rendering of a promoted constant; None marks an item it could not render"""
    if isinstance(pv, dict):
        for it in pv.get("items", []):
            _pv_strs(it, out)
    elif isinstance(pv, list):
        for it in pv:
            _pv_strs(it, out)
    else:
        out.append(pv)


def slice_has_str(sl, s, allow_opaque=False):
    """the slice contains the string constant `s` (directly or inside a promoted constant). With allow_opaque, a
    promoted constant whose content the extractor could not render (null item) also counts: the extractor renders
    `&Some("lit")` promoted by rustc as {"agg": "..::Some", "items": [null]}."""
    for k in sl["consts"]:
        if k.get("v") == s:
            return True
        if "promoted" in k:
            items = []
            _pv_strs(k.get("pv"), items)
            if s in items:
                return True
            if allow_opaque and (k.get("pv") is None or None in items):
                return True
    return False


# ------------------------------------------------------------------------------------------ bus-driver sender checks
DRIVER = "org.freedesktop.DBus"


def is_sender_call(c):
    return c.is_("sender") and "message::header::Header" in c.callee


def driver_checks(body, msg_locals):
    """[(switch block, equal_edge_target, other_target)] for eq/ne comparisons between a Header::sender() value of a
    message in msg_locals and the driver name constant (or a promoted constant the facts cannot render: a comparison
    of the sender with a compile-time constant is then assumed to be the driver name)"""
    out = []
    for sb, cc, tt, ft, neg in mir.call_bool_switches(body):
        if not cc.is_("eq", "ne") or len(cc.args) < 2 or tt == ft or tt is None or ft is None:
            continue
        if cc.is_("ne"):
            tt, ft = ft, tt
        sl = [backslice(body, a) for a in cc.args[:2]]
        for x, y in ((0, 1), (1, 0)):
            scalls = slice_has_call(sl[x], is_sender_call)
            if not scalls or not slice_has_str(sl[y], DRIVER, allow_opaque=True):
                continue
            # the header whose sender is compared belongs to one of the messages in msg_locals
            ok = False
            for sc in scalls:
                hs = backslice(body, sc.args[0]) if sc.args else None
                if hs and (hs["params"] & msg_locals or {p[0] for p in hs["places"]} & msg_locals):
                    ok = True
            if ok:
                out.append((sb, tt, ft))
    return out


def matches_checks_wellknown_sender(f):
    """alternative discharge: MatchRule::matches compares the header's sender on the WellKnown arm of the rule's sender"""
    ms = f.find(name="matches", adt="zbus::match_rule::MatchRule", trait="")
    if len(ms) != 1:
        return False
    m = ms[0]
    for sb, place, adt, arms, other in mir.discr_switches(m, f, "zbus_names::bus_name::BusName"):
        sl = backslice(m, ["c", [place[0], []]])
        if not slice_has_call(sl, lambda c: c.is_("sender") and "MatchRule" in c.callee):
            continue
        wk, un = arms.get("WellKnown"), arms.get("Unique")
        if wk is None:
            continue
        excl = mir.reachable(m, [wk]) - (mir.reachable(m, [un]) if un is not None else set())
        for c in mir.calls(m):
            if c.b in excl and is_sender_call(c):
                return True
    return False


# ------------------------------------------------------------------------------------------ guards
def locals_named(body, name, ty_substr):
    return [l for l, (ty, nm) in enumerate(body.locals) if nm == name and ty_substr in ty]


def released_before(body, g, block):
    """True when on some path the local `g` has been moved out (`move g`, e.g. into `drop(g)`) or dropped
    before control reaches `block`, without being re-assigned in between. rustc's coroutine witness (computed
    before drop elaboration) still lists such a local as saved, so R-AWAIT alone does not see an early `drop(guard)`."""
    kills = set()
    defs = set()
    for b, blk in enumerate(body.blocks):
        if blk.get("c"):
            continue
        for st in blk["s"]:
            if st[0] != "=":
                continue
            for op in mir.rvalue_operands(st[2]):
                if op[0] == "m" and op[1][0] == g and not op[1][1]:
                    kills.add(b)
            if st[1][0] == g and not st[1][1]:
                defs.add(b)
        t = blk["t"]
        if t[0] == "call":
            for a in t[1]["args"]:
                if a[0] == "m" and a[1][0] == g and not a[1][1]:
                    kills.add(b)
            if t[1]["dest"][0] == g and not t[1]["dest"][1]:
                defs.add(b)
        if t[0] == "drop" and t[1][0] == g and not t[1][1]:
            kills.add(b)
    live = mir.live_blocks(body)
    s = mir.succs(body)
    for k in kills:
        if k not in live:
            continue
        if k == block and body.blocks[k]["t"][0] != "drop":
            return True
        if block in mir.reachable(body, s[k], avoid=defs - {block}):
            return True
    return False
