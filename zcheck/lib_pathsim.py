"""Path-sensitive constant simulation of one MIR body, and a small backward slicer.

`simulate(body, start_block, env, ...)` enumerates the feasible abstract states of a body when some
locals hold known scalar constants: switches whose scrutinee evaluates to a constant follow exactly the
edge rustc's SwitchInt would take, every other switch forks.  It is used to decide *by evaluation*
what a function does for one concrete decoded value (e.g. the u32 of a D-Bus boolean, or one pair of
enum discriminants), independent of whether the source says `match`, `if`/`else if`, `==` or `!=`.

Soundness of the abstraction: a local is tracked only while it is a whole scalar that is never
borrowed mutably / has its address taken for a call; anything not tracked is unknown and forks.
So the set of reported outcomes over-approximates the real ones (never misses one).
"""
from . import mir

MASKS = {"u8": 8, "u16": 16, "u32": 32, "u64": 64, "usize": 64, "u128": 128,
         "i8": 8, "i16": 16, "i32": 32, "i64": 64, "isize": 64, "i128": 128}


class Agg(tuple):
    """('agg', adt, variant)"""
    __slots__ = ()


class TooManyStates(Exception):
    pass


def _cast(v, ty):
    if isinstance(v, bool):
        v = int(v)
    if not isinstance(v, int):
        return None
    bits = MASKS.get(ty)
    if bits is None:
        if ty == "bool":
            return bool(v)
        return None
    v &= (1 << bits) - 1
    if ty.startswith("i") and v >> (bits - 1):
        v -= 1 << bits
    return v


def _bin(op, a, b):
    if isinstance(a, Agg) or isinstance(b, Agg) or a is None or b is None:
        return None
    if isinstance(a, str) or isinstance(b, str):
        if op == "Eq":
            return a == b
        if op == "Ne":
            return a != b
        return None
    ia, ib = int(a), int(b)
    if op == "Eq":
        return ia == ib
    if op == "Ne":
        return ia != ib
    if op == "Lt":
        return ia < ib
    if op == "Le":
        return ia <= ib
    if op == "Gt":
        return ia > ib
    if op == "Ge":
        return ia >= ib
    both_bool = isinstance(a, bool) and isinstance(b, bool)
    if op == "BitAnd":
        return (a and b) if both_bool else ia & ib
    if op == "BitOr":
        return (a or b) if both_bool else ia | ib
    if op == "BitXor":
        return (a != b) if both_bool else ia ^ ib
    # arithmetic is deliberately not evaluated (width unknown here): result unknown -> forks
    return None


def escaped_locals(body):
    """locals whose address is taken mutably or as a raw pointer anywhere: never tracked"""
    out = set()
    for b, i, pl, rv, ln in mir.assignments(body):
        if (rv[0] == "rawptr" and "Fake" not in str(rv[1])) or (rv[0] == "ref" and rv[1] == "mut"):
            if not rv[2][1] or rv[2][1][0] != "*":
                out.add(rv[2][0])
    return out


class State:
    __slots__ = ("b", "env", "tags")

    def __init__(self, b, env, tags):
        self.b = b
        self.env = env
        self.tags = tags

    def key(self):
        return (self.b, frozenset(self.env.items()), self.tags)


def _val(env, op):
    if op[0] == "k":
        k = op[1]
        return k.get("v") if not isinstance(k.get("v"), dict) else None
    pl = op[1]
    if pl[1]:
        return None
    return env.get(pl[0])


def _eval(env, rv):
    k = rv[0]
    if k == "use":
        return _val(env, rv[1])
    if k == "cast":
        v = _val(env, rv[2])
        if v is None or isinstance(v, (Agg, str)):
            return None
        return _cast(v, rv[3])
    if k == "bin":
        return _bin(rv[1], _val(env, rv[2]), _val(env, rv[3]))
    if k == "un" and rv[1] == "Not":
        v = _val(env, rv[2])
        if isinstance(v, bool):
            return not v
        return None
    if k == "agg" and rv[1] == "adt":
        return Agg(("agg", rv[2], rv[3]))
    return None


def simulate(body, start, env, event=None, discr_of=None, max_states=20000):
    """Explore from the beginning of block `start` with `env` = {local: constant}.
    event(call, argvals) -> tag (hashable) or None is invoked at every call; tags accumulate along a path.
    discr_of(place) -> int or None lets the caller fix the discriminant read from a place
    (used to evaluate `match (self, other)` for one pair of variants).
    Returns a list of terminal (kind, env, tags) with kind in 'ret' | 'unreach' | 'diverge'."""
    esc = escaped_locals(body)
    init = State(start, {l: v for l, v in env.items() if l not in esc}, frozenset())
    seen = {init.key()}
    work = [init]
    out = []
    while work:
        st = work.pop()
        if len(seen) > max_states:
            raise TooManyStates(body.id)
        blk = body.blocks[st.b]
        env = dict(st.env)
        tags = st.tags
        for s in blk["s"]:
            if s[0] != "=":
                continue
            pl, rv = s[1], s[2]
            if pl[1]:
                # partial write / write through a pointer: forget the base if it was tracked
                if pl[1][0] != "*":
                    env.pop(pl[0], None)
                continue
            v = None
            if rv[0] == "discr" and discr_of is not None:
                v = discr_of(rv[1])
            if v is None:
                v = _eval(env, rv)
            if v is None or pl[0] in esc:
                env.pop(pl[0], None)
            else:
                env[pl[0]] = v
        t = blk["t"]
        k = t[0]
        nxt = []
        if k == "goto":
            nxt = [t[1]]
        elif k == "switch":
            v = _val(env, t[1])
            if isinstance(v, bool):
                v = int(v)
            if isinstance(v, str) and len(v) == 1:
                v = ord(v)
            if isinstance(v, int):
                tgt = None
                for val, b in t[3]:
                    if int(val) == v or (v < 0 and int(val) == v + (1 << 128)):
                        tgt = b
                nxt = [tgt if tgt is not None else t[4]]
            else:
                nxt = sorted(set([x[1] for x in t[3]] + [t[4]]))
        elif k == "call":
            c = mir.Call(body, st.b, t[1])
            if event is not None:
                tag = event(c, [_val(env, a) for a in c.args])
                if tag is not None:
                    tags = tags | {tag}
            env.pop(c.dest[0], None)
            if t[1]["t"] is None:
                out.append(("diverge", env, tags))
            else:
                nxt = [t[1]["t"]]
        elif k == "drop":
            nxt = [t[2]]
        elif k == "assert":
            nxt = [t[4]]
        elif k == "yield":
            nxt = [t[2]]
        elif k == "ret":
            out.append(("ret", env, tags))
        else:
            out.append(("unreach", env, tags))
        for b in nxt:
            ns = State(b, env, tags)
            kk = ns.key()
            if kk not in seen:
                seen.add(kk)
                work.append(ns)
    return out


# ----------------------------------------------------------------------------------------- slicing
def atoms(body, op, depth=0):
    """Backward slice of an operand through temporaries: the set of leaves its value is computed from.
      ('const', v) ('field', name) ('local', l) ('call', Call) ('op', BinOp) ('discr', name) ('idx',)"""
    if depth > 24:
        return {("deep",)}
    o = mir.origin(body, op)
    if o[0] == "const":
        return {("const", o[1].get("v") if not isinstance(o[1].get("v"), dict) else None)}
    if o[0] == "call":
        return {("call", o[1])}
    if o[0] == "rv":
        rv = o[1]
        out = set()
        if rv[0] == "bin":
            out.add(("op", rv[1].replace("WithOverflow", "")))
        if rv[0] == "discr":
            names = mir.place_fields(rv[1])
            return {("discr", names[-1] if names else rv[1][0])}
        for x in mir.rvalue_operands(rv):
            out |= atoms(body, x, depth + 1)
        return out
    place = o[1]
    l, proj = place
    idx = set()
    for p in proj:
        if isinstance(p, list) and p[0] == "[]":
            idx.add(("idx",))
            idx |= atoms(body, ["c", [p[1], []]], depth + 1)
        elif isinstance(p, list) and p[0] in ("[k]", "const_index", "subslice"):
            idx.add(("idx",))
    if idx:
        rest = [p for p in proj if not (isinstance(p, list) and p[0] in ("[]", "[k]", "const_index", "subslice"))]
        base = atoms(body, ["c", [l, rest]], depth + 1) if rest != proj else set()
        names = mir.place_fields(place)
        return idx | base | {("field", n) for n in names}
    if not (0 < l <= body.d["argc"]):
        d = mir.single_def(body, l)
        if d is not None and d[0] == "assign" and d[4][0] == "bin" and body.locals[l][1] is None:
            # `.0` of a checked-arithmetic pair
            out = {("op", d[4][1].replace("WithOverflow", ""))}
            for x in mir.rvalue_operands(d[4]):
                out |= atoms(body, x, depth + 1)
            return out
        if d is not None and d[0] == "call" and proj:
            # a field of a call result (e.g. `ArrayDeserializer::new(..)?.len`): the call and the field read
            names = [n for n in mir.place_fields(place) if n not in ("0", "1") or len(mir.place_fields(place)) == 1]
            return {("call", d[1])} | ({("field", names[-1])} if names else set())
    out = set()
    names = mir.place_fields(place)
    for p in proj:
        if isinstance(p, list) and p[0] == "[]":
            out.add(("idx",))
            out |= atoms(body, ["c", [p[1], []]], depth + 1)
    if names:
        out.add(("field", names[-1]))
        if ("idx",) in out:
            for n in names:
                out.add(("field", n))
    else:
        out.add(("local", l))
    return out


def atom_fields(at):
    return {a[1] for a in at if a[0] == "field"}


def atom_calls(at):
    return [a[1] for a in at if a[0] == "call"]


def atom_consts(at):
    return {a[1] for a in at if a[0] == "const"}
