"""Check context: obligations, violations (keyed without line numbers), known findings,
evidence writer, exit code. One Ctx per property run."""
import json, os, sys, time, traceback
from . import facts as factsmod

VERIF = factsmod.VERIF


class AnchorMissing(Exception):
    pass


class Ctx:
    def __init__(self, pid, tier="quick", seed=0):
        self.pid = pid
        self.tier = tier
        self.seed = seed
        self.t0 = time.time()
        self.obligations = []   # (rule, key, ok, detail, where)
        self.notes = []
        self.configs = {}
        self.explanation = ""
        self.not_decided = ""
        self.assumptions = []
        self.trusted = ["rustc nightly 1.97 front end, type checker and MIR construction (mir_promoted)",
                        "zmir fact extractor (/verif/engine/zmir)", "zcheck rule library"]
        self.extra = {}
        self._facts = {}

    # ---- facts
    def facts(self, config):
        if config not in self._facts:
            f = factsmod.load(config)
            self._facts[config] = f
            self.configs[config] = f.info
        return self._facts[config]

    # ---- anchors
    def need(self, items, what, rule="ANCHOR"):
        """Assert an anchor lookup found something; fail closed otherwise."""
        if not items:
            self.ob(rule, "missing:" + what, False, "anchor not found in analysed facts: " + what, "-")
            raise AnchorMissing(what)
        return items

    def one(self, items, what, rule="ANCHOR"):
        items = self.need(items, what, rule)
        if len(items) != 1:
            self.ob(rule, "ambiguous:" + what, False,
                    "anchor ambiguous (%d candidates): %s: %s" % (len(items), what, [getattr(i, "id", i) for i in items][:6]), "-")
            raise AnchorMissing(what)
        return items[0]

    # ---- obligations
    def ob(self, rule, key, ok, detail="", where=""):
        """Record one rule instance. key must not contain line numbers."""
        self.obligations.append((rule, key, bool(ok), detail, where))
        return bool(ok)

    def floor(self, rule, what, n, minimum):
        """Instance-count floor: a rule matching fewer sites than were confirmed by hand fails."""
        return self.ob(rule, "floor:" + what, n >= minimum,
                       "%s: %d instance(s) found, floor %d" % (what, n, minimum), "-")

    def note(self, s):
        self.notes.append(s)

    # ---- finishing
    def finish(self):
        kf_path = os.path.join(VERIF, "known_findings.json")
        known = {}
        try:
            kf = json.load(open(kf_path))
            for e in kf.get("known", []):
                if e["property"] == self.pid:
                    known[e["key"]] = e
        except FileNotFoundError:
            pass
        viol, knownhit = [], []
        for rule, key, ok, detail, where in self.obligations:
            if ok:
                continue
            full = "%s:%s" % (rule, key)
            if full in known:
                knownhit.append((full, known[full], detail, where))
            else:
                viol.append((full, detail, where))
        # distinct
        seen = set()
        uviol = []
        for v in viol:
            if v[0] not in seen:
                seen.add(v[0])
                uviol.append(v)
        seenk = set()
        for full, e, detail, where in knownhit:
            if full in seenk:
                continue
            seenk.add(full)
            print("KNOWN-FINDING: property=%s %s [%s] at %s" % (self.pid, e.get("what", detail), full, where))
        n_ob = len(self.obligations)
        n_ok = sum(1 for o in self.obligations if o[2])
        samples = []
        for rule, key, ok, detail, where in self.obligations[:400]:
            samples.append({"rule": rule, "instance": key, "holds": ok, "where": where, "detail": detail[:300]})
        by_rule = {}
        for rule, key, ok, detail, where in self.obligations:
            r = by_rule.setdefault(rule, [0, 0])
            r[0] += 1
            r[1] += 1 if ok else 0
        bodies = sum(c.get("bodies", 0) for info in self.configs.values() for c in info.get("crates", {}).values())
        ev = {
            "property_id": self.pid,
            "tier": self.tier,
            "seed": self.seed,
            "level": "other",
            "coverage": {
                "explanation": self.explanation + (" NOT DECIDED: " + self.not_decided if self.not_decided else ""),
                "obligations": n_ob,
                "discharged": n_ok,
                "known_findings_reported": len(seenk),
                "rules": {k: {"instances": v[0], "hold": v[1]} for k, v in by_rule.items()},
                "samples": samples,
                "configurations": self.configs,
                "mir_bodies_in_facts": bodies,
                "checker_cmd": "./check %s --tier %s" % (self.pid, self.tier),
                "trusted_base": self.trusted,
                "notes": self.notes,
                **self.extra,
            },
            "assumptions": self.assumptions,
            "wall_s": round(time.time() - self.t0, 2),
            "violations": len(uviol),
        }
        evdir = os.environ.get("ZCHECK_EVIDENCE_DIR") or os.path.join(VERIF, "evidence")
        os.makedirs(evdir, exist_ok=True)
        with open(os.path.join(evdir, self.pid + ".json"), "w") as fh:
            json.dump(ev, fh, indent=1, default=str)
        print("%s: %d rule instance(s), %d hold, %d known finding(s), %d violation(s) [%s, %.1fs]" % (
            self.pid, n_ob, n_ok, len(seenk), len(uviol), ",".join(self.configs) or "-", time.time() - self.t0))
        for r, (n, k) in sorted(by_rule.items()):
            print("  rule %-28s instances=%d hold=%d" % (r, n, k))
        if uviol:
            rdir = os.environ.get("ZCHECK_REPLAY_DIR") or os.path.join(VERIF, "out", "replay")
            os.makedirs(rdir, exist_ok=True)
            rp = os.path.join(rdir, self.pid + ".json")
            with open(rp, "w") as fh:
                json.dump({"property": self.pid, "tier": self.tier,
                           "violations": [{"key": k, "detail": d, "where": w} for k, d, w in uviol]}, fh, indent=1)
            for k, d, w in uviol:
                print("  FAIL %s at %s: %s" % (k, w, d))
            print("VIOLATION property=%s replay=%s" % (self.pid, rp))
            return 1
        return 0
