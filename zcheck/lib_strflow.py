"""Helpers shared by the string-form rules (C21 match rules, C22 match-rule text, C23 addresses).

  * fmt_template / template_text : decode the byte template of `core::fmt::Arguments::new`
  * str_consts                   : the string constant(s) an operand may hold (through temporaries,
                                   tuple fields of multi-def locals, view calls)
  * Taint                        : two-level forward value flow (alias of a value / computed from it)
  * control_deps                 : direct control dependence of a block on switch blocks
  * Interp                       : evaluation of a side-effect free MIR fragment on one concrete scalar
                                   (used to tabulate character-class predicates; nothing of zbus is run)
"""
from . import mir


# ------------------------------------------------------------------------------- fmt templates
def fmt_template(bs):
    """[('lit', str) | ('arg', index)] of a format_args! template (rustc >= 1.9x byte encoding, see
    library/core/src/fmt/mod.rs 'template byte sequence')."""
    out = []
    i = 0
    nxt = 0
    n = len(bs)
    while i < n:
        b = bs[i]
        i += 1
        if b == 0:
            break
        if b < 0x80:
            out.append(("lit", bytes(bs[i:i + b]).decode("utf-8", "replace")))
            i += b
        elif b == 0x80:
            ln = bs[i] | (bs[i + 1] << 8)
            i += 2
            out.append(("lit", bytes(bs[i:i + ln]).decode("utf-8", "replace")))
            i += ln
        elif b >= 0xC0:
            if b & 1:
                i += 4
            if b & 2:
                i += 2
            if b & 4:
                i += 2
            if b & 8:
                nxt = bs[i] | (bs[i + 1] << 8)
                i += 2
            out.append(("arg", nxt))
            nxt += 1
        else:
            raise ValueError("bad template byte %d" % b)
    return out


def template_text(parts):
    return "".join(p[1] if p[0] == "lit" else "{%d}" % p[1] for p in parts)


def arguments_new(body, call):
    """For a call of core::fmt::Arguments::new(template, &args): (parts, [operand of each Argument]).
    Each argument operand is the reference passed to Argument::new_display/new_debug/...; None if the
    shape is not recognised."""
    if not call.is_("Arguments::<'a>::new", "Arguments::new"):
        return None
    k = mir.resolve_const(body, call.args[0])
    if k is None:
        o = mir.origin(body, call.args[0])
        if o[0] == "const":
            k = o[1]
    if k is None or not isinstance(k.get("v"), dict) or "bytes" not in k["v"]:
        return None
    parts = fmt_template(k["v"]["bytes"])
    # args array: &[Argument; N] <- array aggregate of results of Argument::new_* calls
    arr = None
    if len(call.args) > 1:
        o = mir.origin(body, call.args[1])
        pl = o[1] if o[0] in ("ref", "place") else None
        if pl is not None:
            for d in mir.defs_of(body, pl[0]):
                if d[0] == "assign" and d[4][0] == "agg" and d[4][1] == "array":
                    arr = d[4][4]
    ops = []
    if arr is not None:
        for a in arr:
            oo = mir.origin(body, a)
            if oo[0] == "call" and "fmt::rt::Argument" in oo[1].callee:
                ops.append((oo[1], oo[1].args[0] if oo[1].args else None))
            else:
                ops.append((None, None))
    return parts, ops


# ------------------------------------------------------------------------------- constants
VIEW_CALLS = ("deref", "as_str", "as_ref", "borrow", "as_bytes", "as_os_str", "as_path", "as_deref",
              "must_use", "as_slice", "as_mut", "deref_mut")


def is_view_call(c):
    return c.is_(*VIEW_CALLS)


def str_consts(body, op, depth=0):
    """Set of python strings the operand may hold, or None when some source is not a string constant.
    Looks through temporaries, re-borrows, view calls, and tuple fields of multi-def locals."""
    if depth > 12:
        return None
    if op[0] == "k":
        v = op[1].get("v")
        return {v} if isinstance(v, str) else None
    o = mir.origin(body, op)
    if o[0] == "const":
        v = o[1].get("v")
        return {v} if isinstance(v, str) else None
    if o[0] == "call":
        if is_view_call(o[1]) and o[1].args:
            return str_consts(body, o[1].args[0], depth + 1)
        return None
    if o[0] in ("place", "ref"):
        l, proj = o[1]
        proj = [p for p in proj if p != "*"]
        defs = mir.defs_of(body, l)
        if not defs or (0 < l <= body.d["argc"]):
            return None
        out = set()
        for d in defs:
            if d[0] != "assign" or d[3][1]:
                return None
            rv = d[4]
            if not proj:
                if rv[0] == "use":
                    r = str_consts(body, rv[1], depth + 1)
                elif rv[0] == "ref":
                    r = str_consts(body, ["c", rv[2]], depth + 1)
                else:
                    return None
            elif len(proj) == 1 and isinstance(proj[0], list) and proj[0][0] == "." and rv[0] == "agg" and rv[1] == "tuple":
                r = str_consts(body, rv[4][proj[0][1]], depth + 1)
            elif rv[0] == "use" and rv[1][0] != "k":
                r = str_consts(body, ["c", [rv[1][1][0], list(rv[1][1][1]) + proj]], depth + 1)
            else:
                return None
            if r is None:
                return None
            out |= r
        return out
    return None


def through_tuple(body, op):
    """operand seen through the `args = (&a, &b)` tuple that format_args! builds: `&*args.1` -> `&b`'s operand"""
    for _ in range(4):
        o = mir.origin(body, op)
        if o[0] in ("ref", "place") and o[1][1] and isinstance(o[1][1][0], list) and o[1][1][0][0] == "." and o[1][1][0][3] == "tuple":
            d = mir.single_def(body, o[1][0])
            if d and d[0] == "assign" and d[4][0] == "agg" and d[4][1] == "tuple":
                elem = d[4][4][o[1][1][0][1]]
                if elem[0] != "k":
                    op = [elem[0], [elem[1][0], list(elem[1][1])]]
                    continue
        break
    return op


def pattern_const(body, call, argi=1):
    """String compared by a `<str as PartialEq>::eq(x, CONST)` call generated for a `match` arm."""
    a = call.args[argi]
    r = str_consts(body, a)
    if r is not None and len(r) == 1:
        return next(iter(r))
    return None


# ------------------------------------------------------------------------------- value flow
def _op_locals(rv):
    out = []
    for op in mir.rvalue_operands(rv):
        out.extend(mir.operand_locals(op))
    return out


class Taint:
    """alias    = locals that hold the seed value itself, a part of it, or a reference/view of it
                  (use / ref / cast / field projection / view calls such as deref, as_str);
       computed = locals whose value was computed from it by any other call or operator.
       `discriminant(alias)` is a shape test and propagates nothing."""

    def __init__(self, body, seeds, view=is_view_call):
        self.body = body
        alias = set(seeds)
        comp = set()
        asg = list(mir.assignments(body))
        cls = mir.calls(body)
        changed = True
        while changed:
            changed = False
            for b, i, pl, rv, ln in asg:
                t = pl[0]
                srcs = _op_locals(rv)
                if rv[0] in ("use", "ref", "rawptr", "cast") or (rv[0] == "agg" and rv[1] in ("tuple", "array")):
                    if t not in alias and any(s in alias for s in srcs):
                        alias.add(t)
                        changed = True
                    if t not in comp and any(s in comp for s in srcs):
                        comp.add(t)
                        changed = True
                elif rv[0] == "discr":
                    if t not in comp and any(s in comp for s in srcs):
                        comp.add(t)
                        changed = True
                else:
                    if t not in comp and any(s in alias or s in comp for s in srcs):
                        comp.add(t)
                        changed = True
            for c in cls:
                t = c.dest[0]
                srcs = [l for a in c.args for l in mir.operand_locals(a)]
                if view(c):
                    # a view is a view of its receiver only (the range of `s[a..b]` does not make it "computed")
                    recv = mir.operand_locals(c.args[0]) if c.args else []
                    if t not in alias and any(s in alias for s in recv):
                        alias.add(t)
                        changed = True
                    if t not in comp and any(s in comp for s in recv):
                        comp.add(t)
                        changed = True
                else:
                    if t not in comp and any(s in alias or s in comp for s in srcs):
                        comp.add(t)
                        changed = True
        self.alias = alias
        self.comp = comp

    def is_alias(self, op):
        return any(l in self.alias for l in mir.operand_locals(op))

    def is_comp(self, op):
        return any(l in self.comp for l in mir.operand_locals(op))

    def touches(self, op):
        return self.is_alias(op) or self.is_comp(op)


def switch_locals(body, b):
    """locals read by the scrutinee of the switch terminating block b"""
    t = mir.term(body, b)
    return mir.operand_locals(t[1]) if t[1][0] != "k" else []


def control_deps(body, blk):
    """Switch blocks S on which `blk` is directly control dependent: S has a successor T with
    blk post-dominating T (or blk == T) while blk does not post-dominate S."""
    pd = mir.pdoms(body)
    out = []
    for s, t in mir.switches(body):
        if s != blk and (pd[s] >> blk) & 1:
            continue
        for x in mir.term_succ(t):
            if x == blk or (pd[x] >> blk) & 1:
                out.append(s)
                break
    return out


def closure_operands(body, call, f):
    """closure bodies passed (by value) as arguments of `call`"""
    out = []
    for a in call.args:
        o = mir.origin(body, a)
        rv = None
        if o[0] == "rv":
            rv = o[1]
        elif o[0] in ("place", "ref"):
            for d in mir.defs_of(body, o[1][0]):
                if d[0] == "assign" and d[4][0] == "agg":
                    rv = d[4]
        if rv is not None and rv[0] == "agg" and rv[1] == "closure":
            cb = f.byid(rv[2])
            if cb is not None:
                out.append(cb)
    return out


# ------------------------------------------------------------------------------- tiny evaluator
class Unknown(Exception):
    pass


class _Ref:
    __slots__ = ("v",)

    def __init__(self, v):
        self.v = v


UNK = ("?",)
_WIDTH = {"u8": 8, "u16": 16, "u32": 32, "u64": 64, "usize": 64, "i8": 8, "i16": 16, "i32": 32, "i64": 64,
          "isize": 64, "char": 32, "bool": 1, "u128": 128, "i128": 128}


def _kval(k):
    v = k.get("v")
    if isinstance(v, bool):
        return int(v)
    if isinstance(v, int):
        return v
    if isinstance(v, str) and k.get("ty") == "char" and len(v) == 1:
        return ord(v)
    return UNK


class Interp:
    """Evaluates MIR from a start block with concrete scalars bound to some locals, until the first
    call / return / unreachable. Only scalar moves, casts, comparisons, integer arithmetic, tuples of
    checked arithmetic, enum aggregates and switches are understood; anything else needed for control
    raises Unknown (callers fail closed)."""

    def __init__(self, body, env, max_steps=400):
        self.body = body
        self.env = dict(env)
        self.max_steps = max_steps

    def place(self, pl):
        l, proj = pl
        if l not in self.env:
            raise Unknown("local _%d" % l)
        v = self.env[l]
        for p in proj:
            if v is UNK:
                return UNK
            if p == "*":
                if not isinstance(v, _Ref):
                    raise Unknown("deref of non-ref")
                v = v.v
            elif isinstance(p, list) and p[0] == ".":
                if isinstance(v, tuple) and v and v[0] == "tup":
                    v = v[1][p[1]]
                elif isinstance(v, tuple) and v and v[0] == "adt":
                    v = v[3][p[1]]
                else:
                    raise Unknown("field of scalar")
            elif isinstance(p, list) and p[0] == "as":
                if not (isinstance(v, tuple) and v[0] == "adt" and v[2] == p[1]):
                    raise Unknown("downcast")
            else:
                raise Unknown("projection")
        return v

    def op(self, op):
        if op[0] == "k":
            return _kval(op[1])
        try:
            return self.place(op[1])
        except Unknown:
            return UNK

    def need(self, op):
        v = self.op(op)
        if v is UNK or not isinstance(v, int):
            raise Unknown("operand")
        return v

    def rvalue(self, rv, ty):
        k = rv[0]
        if k == "use":
            return self.op(rv[1])
        if k in ("ref", "rawptr"):
            try:
                return _Ref(self.place(rv[2]))
            except Unknown:
                return UNK
        if k == "cast":
            v = self.op(rv[2])
            if v is UNK or not isinstance(v, int):
                return UNK
            w = _WIDTH.get(rv[3])
            if w is None:
                return UNK
            v &= (1 << w) - 1
            if rv[3].startswith("i") and v >> (w - 1):
                v -= 1 << w
            return v
        if k == "bin":
            a, b = self.op(rv[2]), self.op(rv[3])
            if a is UNK or b is UNK or not isinstance(a, int) or not isinstance(b, int):
                return UNK
            o = rv[1]
            w = _WIDTH.get(ty)
            cmpo = {"Eq": a == b, "Ne": a != b, "Lt": a < b, "Le": a <= b, "Gt": a > b, "Ge": a >= b}
            if o in cmpo:
                return int(cmpo[o])
            ar = {"Add": a + b, "Sub": a - b, "Mul": a * b, "BitAnd": a & b, "BitOr": a | b, "BitXor": a ^ b,
                  "Shl": a << b if 0 <= b < 128 else None, "Shr": a >> b if 0 <= b < 128 else None}
            base = o.replace("WithOverflow", "").replace("Unchecked", "")
            if base not in ar or ar[base] is None:
                return UNK
            r = ar[base]
            if o.endswith("WithOverflow"):
                # ty is the tuple type "(u8, bool)"
                et = ty.strip("()").split(",")[0].strip()
                w = _WIDTH.get(et)
                if w is None:
                    return UNK
                lo, hi = (-(1 << (w - 1)), (1 << (w - 1)) - 1) if et.startswith("i") else (0, (1 << w) - 1)
                ovf = int(not (lo <= r <= hi))
                return ("tup", [r & ((1 << w) - 1) if not et.startswith("i") else r, ovf])
            if w is not None and not ty.startswith("i"):
                r &= (1 << w) - 1
            return r
        if k == "un":
            a = self.op(rv[2])
            if a is UNK or not isinstance(a, int):
                return UNK
            if rv[1] == "Not":
                if ty == "bool":
                    return 1 - a
                w = _WIDTH.get(ty)
                return (~a) & ((1 << w) - 1) if w else UNK
            return UNK
        if k == "agg":
            vals = [self.op(o) for o in rv[4]]
            if rv[1] == "adt":
                return ("adt", rv[2], rv[3], vals)
            if rv[1] == "tuple":
                return ("tup", vals)
            return UNK
        return UNK

    def run(self, start, start_stmt=0):
        """-> ('call', Call) | ('ret', value of _0) | ('unreach',) | ('panic',)"""
        b = start
        first = True
        for _ in range(self.max_steps):
            blk = self.body.blocks[b]
            for i, st in enumerate(blk["s"]):
                if first and i < start_stmt:
                    continue
                if st[0] != "=":
                    continue
                pl, rv = st[1], st[2]
                if pl[1]:
                    continue  # partial writes are not modelled
                self.env[pl[0]] = self.rvalue(rv, self.body.locals[pl[0]][0])
            first = False
            t = blk["t"]
            k = t[0]
            if k == "goto":
                b = t[1]
            elif k == "switch":
                v = self.need(t[1])
                tgt = t[4]
                for val, x in t[3]:
                    if val == v:
                        tgt = x
                        break
                b = tgt
            elif k == "assert":
                v = self.need(t[1])
                if bool(v) != bool(t[2]):
                    return ("panic",)
                b = t[4]
            elif k == "drop":
                b = t[2]
            elif k == "call":
                return ("call", mir.Call(self.body, b, t[1]))
            elif k == "ret":
                return ("ret", self.env.get(mir.RET, UNK))
            else:
                return ("unreach",)
        raise Unknown("step limit")
