"""CFG / dataflow utilities over zmir bodies.

A *point* is (block index, statement index); the terminator of block b is point (b, len(stmts)).
Unwind/cleanup edges are ignored unless asked for: the properties speak about normal returns.
"""
from collections import defaultdict, deque

RET = 0  # return place local


# ----------------------------------------------------------------------------------------- terms
def term(body, b):
    return body.blocks[b]["t"]


def stmts(body, b):
    return body.blocks[b]["s"]


def is_cleanup(body, b):
    return bool(body.blocks[b].get("c"))


def term_succ(t, unwind=False):
    k = t[0]
    if k == "goto":
        return [t[1]]
    if k == "switch":
        return [x[1] for x in t[3]] + [t[4]]
    if k == "call":
        c = t[1]
        out = []
        if c["t"] is not None:
            out.append(c["t"])
        if unwind and c["uw"] is not None:
            out.append(c["uw"])
        return out
    if k == "drop":
        out = [t[2]]
        if unwind and t[3] is not None:
            out.append(t[3])
        return out
    if k == "assert":
        out = [t[4]]
        if unwind and t[5] is not None:
            out.append(t[5])
        return out
    if k == "yield":
        out = [t[2]]
        # the drop edge (t[4]) is the path taken when the coroutine is dropped while suspended
        return out
    return []


def succs(body, unwind=False):
    if not unwind and body._succ is not None:
        return body._succ
    s = [term_succ(blk["t"], unwind) for blk in body.blocks]
    if not unwind:
        body._succ = s
    return s


def preds(body):
    if body._pred is not None:
        return body._pred
    p = [[] for _ in body.blocks]
    for b, ss in enumerate(succs(body)):
        for x in ss:
            p[x].append(b)
    body._pred = p
    return p


def reachable(body, starts, avoid=(), unwind=False):
    """Blocks reachable from `starts` (inclusive) without entering any block of `avoid`."""
    s = succs(body, unwind)
    avoid = set(avoid)
    seen = set()
    work = [b for b in starts if b not in avoid]
    while work:
        b = work.pop()
        if b in seen:
            continue
        seen.add(b)
        for x in s[b]:
            if x not in seen and x not in avoid:
                work.append(x)
    return seen


def live_blocks(body):
    return reachable(body, [0])


def doms(body):
    """dom[b] = bitmask of blocks dominating b (entry = 0); unreachable blocks get full mask."""
    if body._dom is not None:
        return body._dom
    n = len(body.blocks)
    full = (1 << n) - 1
    dom = [full] * n
    dom[0] = 1
    p = preds(body)
    live = live_blocks(body)
    order = _rpo(body)
    changed = True
    while changed:
        changed = False
        for b in order:
            if b == 0:
                continue
            m = full
            for q in p[b]:
                if q in live:
                    m &= dom[q]
            m |= 1 << b
            if m != dom[b]:
                dom[b] = m
                changed = True
    body._dom = dom
    return dom


def _rpo(body):
    s = succs(body)
    seen = set()
    out = []
    stack = [(0, iter(s[0]))]
    seen.add(0)
    while stack:
        b, it = stack[-1]
        adv = False
        for x in it:
            if x not in seen:
                seen.add(x)
                stack.append((x, iter(s[x])))
                adv = True
                break
        if not adv:
            out.append(b)
            stack.pop()
    out.reverse()
    return out


def exits(body):
    """Blocks whose terminator is a normal return."""
    return [b for b in live_blocks(body) if term(body, b)[0] in ("ret",)]


def pdoms(body):
    """pdom[b] = bitmask of blocks post-dominating b with respect to normal return. Blocks that
    cannot reach a return (diverging: panics, infinite loops) get the full mask."""
    if body._pdom is not None:
        return body._pdom
    n = len(body.blocks)
    full = (1 << n) - 1
    s = succs(body)
    ex = set(exits(body))
    pd = [full] * n
    for e in ex:
        pd[e] = 1 << e
    live = live_blocks(body)
    changed = True
    order = list(reversed(_rpo(body)))
    while changed:
        changed = False
        for b in order:
            if b in ex:
                continue
            m = full
            ss = s[b]
            if not ss:
                continue
            for x in ss:
                m &= pd[x]
            m |= 1 << b
            if m != pd[b]:
                pd[b] = m
                changed = True
    body._pdom = pd
    return pd


def dominates(body, a, b):
    """Point a dominates point b (a, b = (block, idx))."""
    if a[0] == b[0]:
        return a[1] <= b[1]
    return bool(doms(body)[b[0]] >> a[0] & 1)


def block_dominates(body, a, b):
    return bool(doms(body)[b] >> a & 1)


def postdominates(body, a, b):
    """Point a post-dominates point b."""
    if a[0] == b[0]:
        return a[1] >= b[1]
    return bool(pdoms(body)[b[0]] >> a[0] & 1)


def can_reach_return(body):
    """Set of blocks from which a normal return is reachable."""
    p = preds(body)
    seen = set()
    work = list(exits(body))
    while work:
        b = work.pop()
        if b in seen:
            continue
        seen.add(b)
        work.extend(p[b])
    return seen


def region(body, head):
    """Blocks dominated by `head` (and reachable)."""
    d = doms(body)
    live = live_blocks(body)
    return {b for b in live if d[b] >> head & 1}


# ----------------------------------------------------------------------------------------- calls
class Call:
    __slots__ = ("body", "b", "c")

    def __init__(self, body, b, c):
        self.body = body
        self.b = b
        self.c = c

    @property
    def point(self):
        return (self.b, len(self.body.blocks[self.b]["s"]))

    @property
    def callee(self):
        return self.c.get("res") or self.c.get("fn") or ""

    @property
    def declared(self):
        return self.c.get("fn") or ""

    @property
    def fnargs(self):
        return self.c.get("fnargs") or ""

    @property
    def line(self):
        return self.c["sp"][0]

    @property
    def args(self):
        return self.c["args"]

    @property
    def dest(self):
        return self.c["dest"]

    @property
    def where(self):
        return "%s:%d" % (self.body.file, self.line)

    def names(self):
        return {self.c.get("res") or "", self.c.get("fn") or ""} - {""}

    def is_(self, *suffixes):
        """callee (resolved or declared) equals or ends with `::suffix` for one of suffixes"""
        for n in self.names():
            for s in suffixes:
                if n == s or n.endswith("::" + s) or n.endswith(">::" + s):
                    return True
        return False

    def __repr__(self):
        return "<Call %s @%s>" % (self.callee, self.where)


def calls(body):
    if body._calls is not None:
        return body._calls
    out = []
    live = live_blocks(body)
    for b, blk in enumerate(body.blocks):
        t = blk["t"]
        if t[0] == "call" and b in live and not blk.get("c"):
            out.append(Call(body, b, t[1]))
    body._calls = out
    return out


def calls_to(body, *suffixes):
    return [c for c in calls(body) if c.is_(*suffixes)]


def calls_matching(body, pred):
    return [c for c in calls(body) if pred(c)]


# ----------------------------------------------------------------------------------------- operands / places
def op_local(op):
    """local of a copy/move operand with no projection-insensitive care; None for constants."""
    if op[0] in ("c", "m"):
        return op[1][0]
    return None


def op_place(op):
    if op[0] in ("c", "m"):
        return op[1]
    return None


def op_const(op):
    if op[0] == "k":
        return op[1]
    return None


def place_fields(place):
    """names of field projections on the place, in order"""
    return [p[2] for p in place[1] if isinstance(p, list) and p[0] == "."]


def place_str(body, place):
    l, proj = place
    nm = body.locals[l][1] if l < len(body.locals) else None
    s = nm or ("_%d" % l)
    for p in proj:
        if p == "*":
            s = "(*%s)" % s
        elif isinstance(p, list) and p[0] == ".":
            s += "." + p[2]
        elif isinstance(p, list) and p[0] == "as":
            s += " as " + p[1]
        elif isinstance(p, list) and p[0] == "[]":
            s += "[_%d]" % p[1]
        else:
            s += "[..]"
    return s


def rvalue_operands(rv):
    k = rv[0]
    if k in ("use",):
        return [rv[1]]
    if k == "repeat":
        return [rv[1]]
    if k in ("ref", "rawptr"):
        return [["c", rv[2]]]
    if k == "cast":
        return [rv[2]]
    if k == "bin":
        return [rv[2], rv[3]]
    if k == "un":
        return [rv[2]]
    if k == "discr":
        return [["c", rv[1]]]
    if k == "agg":
        return list(rv[4])
    return []


def operand_locals(op):
    """all locals mentioned by the operand (base + index locals)"""
    if op[0] in ("c", "m"):
        out = [op[1][0]]
        for p in op[1][1]:
            if isinstance(p, list) and p[0] == "[]":
                out.append(p[1])
        return out
    return []


def assignments(body, live_only=True):
    """yield (block, idx, place, rvalue, line) for each assignment"""
    live = live_blocks(body) if live_only else None
    for b, blk in enumerate(body.blocks):
        if live is not None and b not in live:
            continue
        if blk.get("c"):
            continue
        for i, st in enumerate(blk["s"]):
            if st[0] == "=":
                yield b, i, st[1], st[2], st[3]


def defs_of(body, local):
    """all definitions of `local` (whole or partial): list of ('assign', b, i, place, rv) / ('call', Call)"""
    out = []
    for b, i, pl, rv, ln in assignments(body):
        if pl[0] == local:
            out.append(("assign", b, i, pl, rv))
    for c in calls(body):
        if c.dest[0] == local:
            out.append(("call", c))
    return out


def derives(body, seeds, through_calls=True, stop_calls=None):
    """Flow-insensitive forward closure: locals whose value may derive from any local in `seeds`.
    Assignments x = f(y..) and calls x = g(y..) propagate from y to x; `&mut y` passed to a call
    propagates from the other arguments into y (out-parameters) only when through_calls."""
    seeds = set(seeds)
    changed = True
    asg = list(assignments(body))
    cls = calls(body)
    while changed:
        changed = False
        for b, i, pl, rv, ln in asg:
            if pl[0] in seeds:
                continue
            for op in rvalue_operands(rv):
                if any(l in seeds for l in operand_locals(op)):
                    seeds.add(pl[0])
                    changed = True
                    break
        if through_calls:
            for c in cls:
                if c.dest[0] in seeds:
                    continue
                if stop_calls and stop_calls(c):
                    continue
                if any(l in seeds for a in c.args for l in operand_locals(a)):
                    seeds.add(c.dest[0])
                    changed = True
    return seeds


def single_def(body, local):
    d = defs_of(body, local)
    whole = [x for x in d if (x[0] == "call" and not x[1].dest[1]) or (x[0] == "assign" and not x[3][1])]
    if len(d) == 1 and len(whole) == 1:
        return whole[0]
    return None


def resolve_const(body, op, depth=0):
    """Constant value an operand certainly holds (through single-def temporaries and casts), else None.
    Returns the const dict."""
    if op[0] == "k":
        return op[1]
    if depth > 8:
        return None
    pl = op[1]
    if pl[1]:
        return None
    d = single_def(body, pl[0])
    if d is None or d[0] != "assign":
        return None
    rv = d[4]
    if rv[0] == "use":
        return resolve_const(body, rv[1], depth + 1)
    if rv[0] == "cast":
        return resolve_const(body, rv[2], depth + 1)
    return None


def origin(body, op, depth=0):
    """Follow single-definition temporaries back to where an operand's value comes from:
      ('const', dict)        a constant
      ('call', Call)         the result of a call
      ('rv', rvalue, b, i)   a computed rvalue (binary op, aggregate, discriminant, ...)
      ('place', place)       read of a canonical place (base: argument / named or multi-def local / call result)
      ('ref', place)         the address of a canonical place
    Re-borrows `&(*x)` and copies are looked through."""
    if op[0] == "k":
        return ("const", op[1])
    l, proj = op[1][0], list(op[1][1])
    if depth > 16:
        return ("place", [l, proj])
    if 0 < l <= body.d["argc"]:
        return ("place", [l, proj])
    d = single_def(body, l)
    if d is None:
        return ("place", [l, proj])
    if d[0] == "call":
        if not proj:
            return ("call", d[1])
        return ("place", [l, proj])
    rv = d[4]
    k = rv[0]
    if k == "use":
        src = rv[1]
        if src[0] == "k":
            return ("const", src[1]) if not proj else ("place", [l, proj])
        return origin(body, ["c", [src[1][0], list(src[1][1]) + proj]], depth + 1)
    if k in ("ref", "rawptr"):
        inner = rv[2]
        if proj and proj[0] == "*":
            return origin(body, ["c", [inner[0], list(inner[1]) + proj[1:]]], depth + 1)
        if proj:
            return ("place", [l, proj])
        if inner[1] and inner[1][-1] == "*":
            # re-borrow: &(*p) is p
            return origin(body, ["c", [inner[0], list(inner[1][:-1])]], depth + 1)
        if body.locals[inner[0]][1] is not None:
            # address of a user variable: report the variable itself
            return ("ref", [inner[0], list(inner[1])])
        o = origin(body, ["c", [inner[0], list(inner[1])]], depth + 1)
        if o[0] == "place":
            return ("ref", o[1])
        return ("ref", [inner[0], list(inner[1])])
    if k == "cast" and not proj:
        return origin(body, rv[2], depth + 1)
    if proj:
        return ("place", [l, proj])
    return ("rv", rv, d[1], d[2])


def origin_base(body, op):
    """Like origin(), but a place rooted in a call result (e.g. `*(*deref_mut(..))`) is reported
    as that call: ('call', Call, projections)."""
    o = origin(body, op)
    if o[0] in ("place", "ref"):
        l = o[1][0]
        if not (0 < l <= body.d["argc"]):
            d = single_def(body, l)
            if d is not None and d[0] == "call":
                return ("call", d[1], o[1][1])
    return o


def canon_place(body, place):
    o = origin(body, ["c", place])
    if o[0] in ("place", "ref"):
        return o[1]
    return place


# ----------------------------------------------------------------------------------------- switches
def switches(body):
    live = live_blocks(body)
    for b, blk in enumerate(body.blocks):
        if b in live and blk["t"][0] == "switch" and not blk.get("c"):
            yield b, blk["t"]


def switch_scrutinee(body, b):
    """For the switch terminating block b: ('discr', place, adt) if it switches on a discriminant
    read in the same block; ('local', place) / ('const', ..) otherwise; plus the defining rvalue."""
    t = term(body, b)
    op = t[1]
    if op[0] == "k":
        return ("const", op[1], None)
    l = op[1][0]
    if not op[1][1]:
        for st in reversed(stmts(body, b)):
            if st[0] == "=" and st[1][0] == l and not st[1][1]:
                rv = st[2]
                if rv[0] == "discr":
                    return ("discr", rv[1], rv[2])
                return ("rv", rv, None)
        d = single_def(body, l)
        if d and d[0] == "assign":
            rv = d[4]
            if rv[0] == "discr":
                return ("discr", rv[1], rv[2])
            return ("rv", rv, None)
        if d and d[0] == "call":
            return ("call", d[1], None)
    return ("place", op[1], None)


def discr_switches(body, facts, adt_suffix=None):
    """yield (block, place, adt, {variant_name: target}, otherwise_target) for switches on enum discriminants"""
    for b, t in switches(body):
        sc = switch_scrutinee(body, b)
        if sc[0] != "discr":
            continue
        adt = sc[2]
        if adt_suffix and not (adt == adt_suffix or adt.endswith("::" + adt_suffix)):
            continue
        arms = {}
        for v, tgt in t[3]:
            name = facts.adt_variant_by_discr(adt, v) if facts else None
            arms[name if name is not None else str(v)] = tgt
        yield b, sc[1], adt, arms, t[4]


def otherwise_is_unreachable(body, b):
    t = term(body, b)
    o = t[4]
    return term(body, o)[0] == "unreach" and not stmts(body, o)


def arm_region(body, switch_block, target):
    """Blocks reachable from `target` that are dominated by it (the code of one match arm);
    when the target has other predecessors (shared arm), blocks reachable from it up to the
    immediate post-dominator join are returned instead."""
    return region(body, target)


def ret_values(body, blocks=None):
    """constants / descriptions assigned to the return place inside `blocks`"""
    out = []
    for b, i, pl, rv, ln in assignments(body):
        if blocks is not None and b not in blocks:
            continue
        if pl[0] == RET and not pl[1]:
            out.append((b, i, rv, ln))
    return out


def summarize(body, blocks):
    """Effect summary of a set of blocks: constants flowing to return, callees, aggregates, strings."""
    consts, callees, aggs, strs, rets = [], [], [], [], []
    for b in sorted(blocks):
        blk = body.blocks[b]
        if blk.get("c"):
            continue
        for st in blk["s"]:
            if st[0] != "=":
                continue
            rv = st[2]
            for op in rvalue_operands(rv):
                k = op_const(op)
                if k is not None and "v" in k:
                    consts.append(k["v"])
                    if isinstance(k["v"], str):
                        strs.append(k["v"])
            if rv[0] == "agg" and rv[1] == "adt":
                aggs.append("%s::%s" % (rv[2], rv[3]))
            if st[1][0] == RET and not st[1][1]:
                rets.append(rv)
        t = blk["t"]
        if t[0] == "call":
            c = t[1]
            callees.append(c.get("res") or c.get("fn") or "?")
            for a in c["args"]:
                k = op_const(a)
                if k is not None and "v" in k:
                    consts.append(k["v"])
                    if isinstance(k["v"], str):
                        strs.append(k["v"])
    return {"consts": consts, "callees": callees, "aggs": aggs, "strs": strs, "rets": rets}


def value_table(body, facts, switch_block):
    """For a switch on an enum discriminant whose arms each assign a constant to the return
    place (possibly through a temp), return {variant: const or None}."""
    sc = switch_scrutinee(body, switch_block)
    t = term(body, switch_block)
    table = {}
    for v, tgt in t[3] + [["otherwise", t[4]]]:
        if sc[0] == "discr" and v != "otherwise":
            name = facts.adt_variant_by_discr(sc[2], v) or str(v)
        else:
            name = str(v)
        table[name] = arm_constant(body, tgt)
    return table


def arm_constant(body, start, limit=6):
    """Follow a straight-line arm from block `start`; return the constant value stored to the
    return place (directly or via one temporary), or None when the arm is not of that shape."""
    b = start
    temps = {}
    for _ in range(limit):
        blk = body.blocks[b]
        for st in blk["s"]:
            if st[0] != "=":
                continue
            pl, rv = st[1], st[2]
            if pl[1]:
                continue
            val = None
            if rv[0] == "use":
                k = op_const(rv[1])
                if k is not None:
                    val = ("k", k.get("v"), k)
                else:
                    l = op_local(rv[1])
                    if l in temps and not rv[1][1][1]:
                        val = temps[l]
            elif rv[0] == "agg":
                val = ("agg", rv)
            if val is not None:
                temps[pl[0]] = val
        if RET in temps:
            return temps[RET]
        t = blk["t"]
        if t[0] == "goto":
            b = t[1]
            continue
        if t[0] == "ret":
            break
        if t[0] == "unreach":
            return ("unreachable",)
        return None
    return temps.get(RET)


# ----------------------------------------------------------------------------------------- yields
def yields(body):
    live = live_blocks(body)
    out = []
    for b, blk in enumerate(body.blocks):
        if b in live and blk["t"][0] == "yield" and not blk.get("c"):
            out.append((b, blk["t"]))
    return out


def span_contains(outer, inner):
    """span = [lo_line, lo_col, hi_line, hi_col]"""
    lo_ok = (outer[0], outer[1]) <= (inner[0], inner[1])
    hi_ok = (inner[2], inner[3]) <= (outer[2], outer[3])
    return lo_ok and hi_ok


# ----------------------------------------------------------------------------------------- comparisons
def bool_switch_edges(t):
    """(true_target, false_target) of a switch on a bool"""
    vals = dict((v, tg) for v, tg in t[3])
    if 0 in vals:
        return t[4], vals[0]
    if 1 in vals:
        return vals[1], t[4]
    return None, None


def cmp_switches(body):
    """yield (block, op, lhs, rhs, true_target, false_target, line) for every switch whose
    scrutinee is the result of a binary comparison"""
    for b, t in switches(body):
        if t[2] != "bool":
            continue
        sc = switch_scrutinee(body, b)
        if sc[0] != "rv" or sc[1][0] != "bin":
            continue
        op = sc[1][1]
        if op not in ("Eq", "Ne", "Lt", "Le", "Gt", "Ge"):
            continue
        tt, ft = bool_switch_edges(t)
        yield b, op, sc[1][2], sc[1][3], tt, ft, t[5]


def call_bool_switches(body):
    """yield (block, Call, true_target, false_target, negated) for switches on the bool result of a call
    (optionally through a single `Not`)."""
    for b, t in switches(body):
        if t[2] != "bool":
            continue
        op = t[1]
        neg = False
        o = origin(body, op)
        if o[0] == "rv" and o[1][0] == "un" and o[1][1] == "Not":
            neg = True
            o = origin(body, o[1][2])
        if o[0] == "call":
            tt, ft = bool_switch_edges(t)
            if neg:
                tt, ft = ft, tt
            yield b, o[1], tt, ft, neg


def root_local(body, op, depth=0):
    """the user-visible local an operand's value comes from through copies (`_94 = pos` -> pos)"""
    if op[0] == "k":
        return None
    l = op[1][0]
    if depth > 10:
        return l
    if body.locals[l][1] is not None or (0 < l <= body.d["argc"]):
        return l
    d = single_def(body, l)
    if d and d[0] == "assign" and d[4][0] == "use" and not op[1][1]:
        r = root_local(body, d[4][1], depth + 1)
        return r if r is not None else l
    return l


def local_name(body, l):
    return body.locals[l][1] if l is not None and l < len(body.locals) else None
