"""debug: pretty-print a body.  usage: python3 -m zcheck.dump K1 <id-substring> [exact]"""
import sys
from . import facts, mir


def fmt_op(body, op):
    if op[0] == "k":
        k = op[1]
        if "v" in k:
            return "const %r" % (k["v"],)
        if "fn" in k:
            return "fn %s" % k["fn"]
        if "static" in k:
            return "static %s" % k["static"]
        if "cdef" in k:
            return "constitem %s" % k["cdef"]
        if "promoted" in k:
            return "promoted[%d]:%s" % (k["promoted"], k["ty"])
        return "const<%s>" % k["ty"]
    return ("move " if op[0] == "m" else "") + mir.place_str(body, op[1])


def fmt_rv(body, rv):
    k = rv[0]
    if k == "use":
        return fmt_op(body, rv[1])
    if k == "ref":
        return "&%s%s" % ("mut " if rv[1] == "mut" else "", mir.place_str(body, rv[2]))
    if k == "bin":
        return "%s(%s, %s)" % (rv[1], fmt_op(body, rv[2]), fmt_op(body, rv[3]))
    if k == "un":
        return "%s(%s)" % (rv[1], fmt_op(body, rv[2]))
    if k == "cast":
        return "%s as %s [%s]" % (fmt_op(body, rv[2]), rv[3], rv[1])
    if k == "discr":
        return "discriminant(%s) [%s]" % (mir.place_str(body, rv[1]), rv[2])
    if k == "agg":
        return "%s %s::%s(%s)" % (rv[1], rv[2], rv[3], ", ".join(fmt_op(body, o) for o in rv[4]))
    return str(rv)[:160]


def dump(body, out=sys.stdout):
    w = out.write
    w("fn %s  [%s] %s:%s kind=%s macro=%s\n" % (body.id, body.crate, body.file, body.span, body.kind, body.d.get("macro")))
    for i, (ty, nm) in enumerate(body.locals):
        w("   _%d: %s%s\n" % (i, ty, " // " + nm if nm else ""))
    live = mir.live_blocks(body)
    for b, blk in enumerate(body.blocks):
        if blk.get("c"):
            continue
        w(" bb%d%s:\n" % (b, "" if b in live else " (dead)"))
        for st in blk["s"]:
            if st[0] == "=":
                w("    %s = %s    // L%d\n" % (mir.place_str(body, st[1]), fmt_rv(body, st[2]), st[3]))
            else:
                w("    %s\n" % (st,))
        t = blk["t"]
        if t[0] == "call":
            c = t[1]
            w("    %s = CALL %s(%s) -> bb%s   // L%d decl=%s %s\n" % (
                mir.place_str(body, c["dest"]), c.get("res") or c.get("fn") or c.get("fnptr") or c.get("fnval"),
                ", ".join(fmt_op(body, a) for a in c["args"]), c["t"], c["sp"][0], c.get("fnargs"), c.get("x") or ""))
        elif t[0] == "switch":
            w("    SWITCH %s : %s -> %s otherwise bb%d  // L%d %s\n" % (fmt_op(body, t[1]), t[2], ["%s:bb%d" % (v, x) for v, x in t[3]], t[4], t[5], t[6] or ""))
        elif t[0] == "drop":
            w("    DROP %s -> bb%d  // %s\n" % (mir.place_str(body, t[1]), t[2], t[4]))
        elif t[0] == "assert":
            w("    ASSERT %s == %s %s -> bb%d // L%d %s\n" % (fmt_op(body, t[1]), t[2], t[3][0], t[4], t[6], t[7] or ""))
        elif t[0] == "yield":
            w("    YIELD -> bb%d  // %s\n" % (t[2], t[5]))
        else:
            w("    %s\n" % (t,))


if __name__ == "__main__":
    f = facts.load(sys.argv[1])
    pat = sys.argv[2]
    exact = len(sys.argv) > 3
    for b in f.all_bodies():
        if (exact and b.id == pat) or (not exact and pat in b.id):
            dump(b)
            print()
