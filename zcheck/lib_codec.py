"""Helpers shared by the zvariant encoder/decoder rules (C01, C02).

Everything here is anchored on def paths, trait identity, field names and callee names; nothing looks at
block numbers, local numbers or line numbers.
"""
import json, os
from . import mir

SER_TRAIT = "serde_core::ser::Serializer"
DE_TRAIT = "serde_core::de::Deserializer"
DBUS_SER = "zvariant::dbus::ser::Serializer"
DBUS_DE = "zvariant::dbus::de::Deserializer"
GV_SER = "zvariant::gvariant::ser::Serializer"
GV_DE = "zvariant::gvariant::de::Deserializer"
SER_COMMON = "zvariant::ser::SerializerCommon"
DE_COMMON = "zvariant::de::DeserializerCommon"
SIG = "zvariant_utils::signature::Signature"
FORMAT = "zvariant_utils::serialized::Format"
BASIC = "zvariant::basic::Basic"

SPEC_PATH = os.path.join(os.path.dirname(os.path.dirname(os.path.abspath(__file__))), "spec", "dbus_types.json")


def load_spec(ctx):
    try:
        with open(SPEC_PATH) as fh:
            spec = json.load(fh)
    except Exception:
        spec = None
    ctx.need([spec] if spec else [], "spec oracle " + SPEC_PATH)
    spec["by_code"] = {r["code"]: r for r in spec["types"]}
    spec["by_variant"] = {r["variant"]: r for r in spec["types"]}
    return spec


# ----------------------------------------------------------------------------------------- anchors
def method(ctx, f, adt, trait, name, what=None):
    """the unique body `name` of the impl of `trait` ("" = inherent) whose self ADT is `adt`"""
    return ctx.one(f.find(name=name, adt=adt, trait=trait), what or "%s::%s (%s)" % (adt, name, trait or "inherent"))


def methods(f, adt, trait):
    return [b for b in f.all_bodies() if b.d.get("impl_adt") == adt and b.d.get("impl_trait") == trait
            and b.kind in ("AssocFn", "Fn")]


def short(body):
    """readable, line-free function key"""
    i = body.id
    for a, b in (("zvariant::dbus::", "dbus::"), ("zvariant::gvariant::", "gvariant::"), ("serde_core::", "serde::"),
                 ("zvariant_utils::signature::", "sig::"), ("zvariant::", "")):
        i = i.replace(a, b)
    return i


# ----------------------------------------------------------------------------------------- success / error paths
def error_blocks(body):
    """Blocks every path through which ends in an error return: the `?` residual conversion and explicit
    `Err(..)` stores to the return place."""
    out = set()
    for c in mir.calls(body):
        if c.is_("from_residual"):
            out.add(c.b)
    for b, i, pl, rv, ln in mir.assignments(body):
        if pl[0] == mir.RET and not pl[1] and rv[0] == "agg" and rv[1] == "adt" and rv[2] == "core::result::Result" and rv[3] == "Err":
            out.add(b)
    return out


def ok_exits_from(body, starts, avoid=()):
    """normal-return blocks reachable from `starts` without passing an error block or a block of `avoid`"""
    av = set(avoid) | error_blocks(body)
    reach = mir.reachable(body, list(starts), avoid=av)
    return [b for b in reach if mir.term(body, b)[0] == "ret"]


def after(body, b):
    """successor blocks of the terminator of b (normal edges)"""
    return mir.succs(body)[b]


def always_followed(body, call_block, later_blocks):
    """every success path from the completion of `call_block` to a return passes one of `later_blocks`"""
    return not ok_exits_from(body, after(body, call_block), avoid=later_blocks)


def always_preceded(body, block, earlier_blocks):
    """every path from entry to `block` passes one of `earlier_blocks` (its success continuation)"""
    if block in earlier_blocks:
        return False
    return block not in mir.reachable(body, [0], avoid=set(earlier_blocks))


# ----------------------------------------------------------------------------------------- places
def deref_fields(place):
    """field names along a place, ignoring derefs and downcasts"""
    return [p[2] for p in place[1] if isinstance(p, list) and p[0] == "."]


def place_of(body, op):
    """canonical place an operand reads / borrows (through temporaries and re-borrows), or None"""
    o = mir.origin(body, op)
    if o[0] in ("place", "ref"):
        return o[1]
    return None


def self_path(body, op):
    """field-name path when the operand reads/borrows a place rooted in the first argument (`self`, `ser`, `de`),
    else None.  `(*self).0.signature` -> ['0', 'signature']"""
    pl = place_of(body, op)
    if pl is None:
        return None
    if pl[0] != 1:
        # a named local that is itself a (re)borrow of self: `let x = &mut self.0`
        return None
    return deref_fields(pl)


def field_writes(body, field, owner=None):
    """assignments whose destination place ends in `.field` (owner ADT optional): (b, i, place, rv, line)"""
    out = []
    for b, i, pl, rv, ln in mir.assignments(body):
        if not pl[1]:
            continue
        last = pl[1][-1]
        if isinstance(last, list) and last[0] == "." and last[2] == field and (owner is None or last[3] == owner):
            out.append((b, i, pl, rv, ln))
    return out


def reads_field(body, op, field):
    """operand's value is (a copy of / a borrow of) a place whose last field projection is `field`"""
    pl = place_of(body, op)
    if pl is None:
        return False
    fs = deref_fields(pl)
    return bool(fs) and fs[-1] == field


# ----------------------------------------------------------------------------------------- writes
def write_kind(c):
    """('bytes', 'write_u32') for endi WriteBytes, ('io', 'write_all'|'write'|'write_fmt') for std::io::Write, else None"""
    fn = c.c.get("fn") or ""
    if fn.startswith("endi::io::WriteBytes::write_"):
        return ("bytes", fn.rsplit("::", 1)[1])
    if fn in ("std::io::Write::write_all", "std::io::Write::write", "std::io::Write::write_fmt",
              "std::io::Write::write_vectored", "std::io::Write::write_all_vectored"):
        return ("io", fn.rsplit("::", 1)[1])
    return None


def read_kind(c):
    fn = c.c.get("fn") or ""
    res = c.c.get("res") or ""
    for n in (fn, res):
        if "endi::" in n and "::read_" in n:
            return n.rsplit("::", 1)[1]
    return None


def recv_type(c):
    t = (c.c.get("argtys") or [""])[0]
    return t


def is_counting_writer(c):
    return SER_COMMON in recv_type(c)


def width_of(method_name):
    """'write_u32' / 'read_i16' -> (bytes, class)"""
    n = method_name.split("_", 1)[1]
    cls = {"u": "uint", "i": "int", "f": "float"}.get(n[0])
    try:
        bits = int(n[1:])
    except ValueError:
        return None
    return bits // 8, cls


def const_bytes(body, op, depth=0):
    """the byte-string literal an operand denotes (`b"\\0"`, `&b"\\0"[..]`), else None"""
    if depth > 6:
        return None
    o = mir.origin(body, op)
    if o[0] == "const":
        v = o[1].get("v")
        if isinstance(v, dict) and "bytes" in v:
            return list(v["bytes"])
        return None
    if o[0] == "call" and o[1].is_("index") and len(o[1].args) == 2:
        if _is_rangefull(body, o[1].args[1]):
            return const_bytes(body, o[1].args[0], depth + 1)
        return None


def _is_rangefull(body, op):
    idx = mir.origin(body, op)
    return idx[0] == "rv" and idx[1][0] == "agg" and str(idx[1][2]).endswith("RangeFull")


# ----------------------------------------------------------------------------------------- alignment sources
def basic_type_of(c):
    """`<T as zvariant::basic::Basic>::alignment` -> 'T' (from the substituted callee path)"""
    fa = c.fnargs
    if fa.startswith("<") and " as " + BASIC + ">::" in fa:
        return fa[1:fa.index(" as " + BASIC + ">::")]
    return None


def generic_of(c, fn_suffix):
    """`...::prep_serialize_basic::<bool>` -> 'bool'"""
    fa = c.fnargs
    k = fa.rfind(fn_suffix + "::<")
    if k < 0:
        return None
    s = fa[k + len(fn_suffix) + 3:]
    if s.endswith(">"):
        return s[:-1]
    return None


def basic_code(f, ty):
    """D-Bus type code of a Rust type through its evaluated `Basic::SIGNATURE_CHAR`"""
    c = f.consts.get("<%s as %s>::SIGNATURE_CHAR" % (ty, BASIC))
    if c is None or c.get("v") is None:
        return None
    return chr(c["v"])


def arm_of(body, f, block, adt=SIG):
    """Names of the enum variants whose match arm (of a discriminant switch on `adt`) dominates `block`;
    'otherwise' for the fall-through arm. Returns a frozenset or None when no such switch dominates."""
    best = None
    for sb, place, a, arms, other in mir.discr_switches(body, f, None):
        if a != adt:
            continue
        if not mir.block_dominates(body, sb, block) or sb == block:
            continue
        bytgt = {}
        for name, tgt in arms.items():
            bytgt.setdefault(tgt, set()).add(name)
        bytgt.setdefault(other, set()).add("otherwise")
        hit = None
        for tgt, names in bytgt.items():
            if mir.block_dominates(body, tgt, block) and _edge_only(body, sb, tgt):
                hit = names
        if hit is not None:
            best = frozenset(hit)  # innermost dominating switch wins (later in dominance order)
    return best


def _edge_only(body, sb, tgt):
    """tgt is entered only from the switch (so dominance by tgt means 'inside that arm')"""
    return all(p == sb for p in mir.preds(body)[tgt])


def align_source(f, body, op, depth=0):
    """Canonical, comparable description of where an alignment operand comes from:
      ('const', value, const_def_path|None)
      ('basic', rust type)            <T as Basic>::alignment(..)
      ('sig', path)                   Signature::alignment on the signature stored at self-path `path`
      ('child', variantfield)         Signature::alignment on the child bound from the current signature (`Array.0`)
      ('field', path)                 a usize read from the field path of self
      ('table', frozenset((variants, source)))   a value assigned per match arm on the current signature
      ('arg', n)                      the n-th argument of the function
      ('?', text)                     anything else
    """
    if depth > 6:
        return ("?", "depth")
    o = mir.origin(body, op)
    if o[0] == "const":
        k = o[1]
        return ("const", k.get("v"), k.get("cdef"))
    if o[0] == "call":
        c = o[1]
        if c.c.get("fn") == BASIC + "::alignment" or c.callee == BASIC + "::alignment":
            return ("basic", basic_type_of(c))
        if c.callee == SIG + "::alignment" and c.args:
            return _sig_recv(f, body, c.args[0], depth)
        if c.is_("max") and len(c.args) == 2:
            return ("max", align_source(f, body, c.args[0], depth + 1), align_source(f, body, c.args[1], depth + 1))
        return ("?", "call " + c.callee)
    if o[0] in ("place",):
        pl = o[1]
        l = pl[0]
        if 0 < l <= body.d["argc"]:
            if l == 1 and pl[1]:
                return ("field", tuple(deref_fields(pl)))
            if not pl[1]:
                return ("arg", l)
        # a tuple field of a multi-definition temporary: per-arm table
        fs = [p for p in pl[1] if isinstance(p, list) and p[0] == "."]
        defs = mir.defs_of(body, l)
        rows = set()
        if defs and all(d[0] == "assign" and not d[3][1] for d in defs):
            for d in defs:
                rv = d[4]
                arm = arm_of(body, f, d[1])
                if rv[0] == "agg" and rv[1] == "tuple" and len(fs) == 1 and pl[1] and fs[0][1] < len(rv[4]):
                    src = align_source(f, body, rv[4][fs[0][1]], depth + 1)
                elif rv[0] == "use" and not pl[1]:
                    src = align_source(f, body, rv[1], depth + 1)
                else:
                    src = ("?", "def " + rv[0])
                rows.add((arm, src))
            if len(rows) == 1 and len(defs) == 1:
                return list(rows)[0][1]
            return ("table", frozenset(rows))
        return ("?", "place " + mir.place_str(body, pl))
    return ("?", o[0])


def _sig_recv(f, body, recv, depth):
    o = mir.origin(body, recv)
    # through Child::deref / Child::signature
    if o[0] == "call" and (o[1].is_("deref", "signature") and "signature::child::Child" in o[1].callee) and o[1].args:
        inner = place_of(body, o[1].args[0])
        if inner is not None:
            down = [p for p in inner[1] if isinstance(p, list) and p[0] == "as"]
            fs = deref_fields(inner)
            # `child = &(*sig) as Array.0`  — binding of the current signature's child
            base = mir.origin(body, ["c", [inner[0], []]]) if not inner[1] else None
            if base is not None and base[0] in ("place", "ref"):
                inner = base[1]
                down = [p for p in inner[1] if isinstance(p, list) and p[0] == "as"]
                fs = deref_fields(inner)
            if down:
                return ("child", "%s.%s" % (down[-1][1], fs[-1] if fs else "?"))
        return ("?", "child of unknown")
    if o[0] in ("place", "ref"):
        pl = o[1]
        fs = deref_fields(pl)
        if pl[0] == 1 or fs:
            if any(isinstance(p, list) and p[0] == "as" for p in pl[1]):
                return ("?", "downcast " + mir.place_str(body, pl))
            if fs and fs[-1] == "signature":
                return ("sig", "self" if pl[0] == 1 else "local")
        # a local copy of the signature field: `let signature = self.0.signature`
        return ("sig", "local:" + str(mir.local_name(body, pl[0])))
    if o[0] == "const":
        return ("sigconst", str(o[1].get("ty")))
    return ("?", "recv " + o[0])


# ----------------------------------------------------------------------------------------- value / alignment canonical forms
def value_source(body, op):
    """Where a value operand comes from, looking through `as` casts and `?`:
    ('arg', n, casts) | ('call', Call, casts) | ('local', l, casts) | (kind, None, casts)"""
    casts = []
    cur = op
    for _ in range(6):
        o = mir.origin(body, cur)
        if o[0] == "rv" and o[1][0] == "cast":
            casts.append((o[1][1], o[1][3]))
            cur = o[1][2]
            continue
        if o[0] == "place" and not o[1][1] and 0 < o[1][0] <= body.d["argc"]:
            return ("arg", o[1][0], casts)
        ob = mir.origin_base(body, cur)
        if ob[0] == "call" and ob[1].is_("branch") and len(ob) > 2 and ob[1].args:
            cur = ob[1].args[0]
            continue
        if o[0] == "place" and not o[1][1]:
            return ("local", o[1][0], casts)
        if o[0] == "call":
            return ("call", o[1], casts)
        return (o[0], None, casts)
    return ("?", None, casts)


def endian_ok(body, op, prefix):
    """operand is `<self-path prefix>.ctxt.endian()`"""
    o = mir.origin(body, op)
    if o[0] != "call" or not o[1].callee.endswith("Context::endian"):
        return False
    return self_path(body, o[1].args[0]) == prefix + ["ctxt"]


SIGSELF = ("sig", "self")
ELEM_TABLE = ("table", frozenset([(("Array",), ("child", "Array.0")), (("Dict",), ("const", 8))]))


def canon_align(f, spec, src):
    """alignment source with constants reduced to their value and `<T as Basic>::alignment` to the spec alignment of
    T's evaluated SIGNATURE_CHAR"""
    if src[0] == "const":
        return ("const", src[1])
    if src[0] == "basic":
        code = basic_code(f, src[1]) if src[1] else None
        row = spec["by_code"].get(code)
        return ("const", row["align"]) if row else ("?", "basic " + str(src[1]))
    if src[0] == "table":
        return ("table", frozenset((tuple(sorted(a or ())), canon_align(f, spec, s)) for a, s in src[1]))
    if src[0] == "sig":
        return ("sig", "self" if src[1] == "self" or str(src[1]).startswith("local:signature") else src[1])
    return src


def alignment_table(ctx, f):
    """{variant: constant} of Signature::alignment_dbus"""
    body = ctx.one(f.find(name="alignment_dbus", adt=SIG, trait=""), "Signature::alignment_dbus")
    sw = ctx.one([s for s in mir.discr_switches(body, f, None) if s[2] == SIG], "switch on Signature in alignment_dbus")
    sb, place, adt, arms, other = sw
    out = {}
    for v in [x["name"] for x in f.adts[SIG]["variants"]]:
        val = mir.arm_constant(body, arms.get(v, other), limit=8)
        out[v] = val[1] if val is not None and val[0] == "k" else None
    return out


def ok_returns(body):
    """blocks storing `Ok(..)` to the return place"""
    return [(b, rv) for b, i, pl, rv, ln in mir.assignments(body)
            if pl == [mir.RET, []] and rv[0] == "agg" and rv[1] == "adt" and rv[2] == "core::result::Result" and rv[3] == "Ok"]


def returns_call(body, c):
    return c.dest[0] == mir.RET or mir.RET in mir.derives(body, {c.dest[0]}, through_calls=False)
