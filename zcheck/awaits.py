"""R-AWAIT: suspension points of a coroutine body with the locals saved across them.

`Await.saved` comes from the coroutine layout rustc's state transform computed after drop elaboration
(facts key "opt"), i.e. exactly the locals stored in the coroutine state at that suspension point.

The saved-locals information comes from rustc's own coroutine layout computation
(`mir_coroutine_witnesses`): a local is listed for a suspension point iff rustc decided it is
live across that yield, which is exactly "held across the await"."""
from . import mir


class Await:
    __slots__ = ("body", "yb", "sp", "saved", "call", "origin", "idx")

    def __init__(self, body, yb, sp):
        self.body = body
        self.yb = yb
        self.sp = sp
        self.saved = []     # [(type, name, decl_line)]
        self.call = None    # mir.Call producing the awaited future, when it is a direct call
        self.origin = None
        self.idx = None

    @property
    def line(self):
        return self.sp[0]

    @property
    def where(self):
        return "%s:%d" % (self.body.file, self.sp[0])

    def awaited(self):
        return self.call.callee if self.call is not None else str(self.origin)

    def holds(self, substr, exclude_awaitee=True):
        out = []
        for ty, name, ln in self.saved:
            if exclude_awaitee and name == "__awaitee":
                continue
            if substr in ty:
                out.append((ty, name, ln))
        return out

    def __repr__(self):
        return "<Await %s @%s saved=%d>" % (self.awaited(), self.where, len(self.saved))


def awaits(facts, body):
    """All suspension points of a coroutine body, in block order."""
    co = facts.coroutines.get(body.id)
    # prefer the layout the state transform computed on drop-elaborated MIR ("opt"): it is exact, whereas the
    # type-check-time witness layout keeps a local that was moved out (e.g. `drop(guard)`) before the await
    if co and co.get("opt"):
        co = co["opt"]
    ys = mir.yields(body)
    out = []
    variants = co["variants"][3:] if co else []
    fields = co["fields"] if co else []
    used = set()
    for yb, t in ys:
        a = Await(body, yb, t[5])
        # witness variant with the same span (first unused one)
        for vi, v in enumerate(variants):
            if vi in used:
                continue
            if v["sp"] == a.sp:
                used.add(vi)
                a.idx = vi
                a.saved = [tuple(fields[i]) for i in v["saved"]]
                break
        # awaited future: the into_future call carrying the same (await-desugaring) span
        for c in mir.calls(body):
            if c.c["sp"] == a.sp and c.is_("into_future") and c.args:
                o = mir.origin(body, c.args[0])
                a.origin = o
                if o[0] == "call":
                    a.call = o[1]
                break
        out.append(a)
    return out


def coroutine_of(facts, fn_body):
    """The coroutine body of an `async fn` (its {closure#0}); for #[async_trait] methods the
    `async move` block inside the boxed future."""
    kids = [b for b in facts.children.get(fn_body.id, []) if b.kind == "coroutine"]
    return kids


def awaits_matching(facts, body, *suffixes):
    return [a for a in awaits(facts, body) if a.call is not None and a.call.is_(*suffixes)]
