"""R-PANIC: panic-site audit over a call-graph closure (DESIGN §1.3).

Every panic-capable construct in workspace code reachable from the given roots must be *discharged*:
  assume   usize/u64/isize/i64 Add/Mul/Shl overflow asserts — under the recorded assumption "64-bit usize; lengths and
           positions are bounded by the address space" (operands never come from an 8-byte wire field unchecked: such
           sites are listed explicitly as `wide` in the table when they exist)
  guard    the site is dominated by a comparison / emptiness / length test on a value related to the site's own
           operands (same root local or same container place) — *this* is what detects a removed check
  table    a reviewed line in /verif/tables/panic_ok.json keyed (function, kind, shape) with the invariant;
           a line may say "guard": true, then the related dominating test must ALSO be present
Anything else is a violation, keyed (function id, kind, operand shape) — never by line.
"""
import json, os
from . import mir, callgraph

VERIF = os.path.dirname(os.path.dirname(os.path.abspath(__file__)))

PANIC_CALLS = {
    # callee suffix -> kind
    "core::option::Option::<T>::unwrap": "unwrap",
    "core::option::Option::<T>::expect": "expect",
    "core::result::Result::<T, E>::unwrap": "unwrap",
    "core::result::Result::<T, E>::expect": "expect",
    "core::result::Result::<T, E>::unwrap_err": "unwrap",
    "core::result::Result::<T, E>::expect_err": "expect",
    "core::option::Option::<T>::unwrap_unchecked": "unchecked",
    "core::result::Result::<T, E>::unwrap_unchecked": "unchecked",
    "core::panicking::panic": "panic",
    "core::panicking::panic_fmt": "panic",
    "core::panicking::panic_explicit": "panic",
    "core::panicking::panic_display": "panic",
    "core::panicking::unreachable_display": "panic",
    "core::panicking::assert_failed": "assert",
    "core::panicking::panic_nounwind": "panic",
    "std::rt::begin_panic": "panic",
    "std::rt::panic_fmt": "panic",
    "core::option::expect_failed": "panic",
    "core::result::unwrap_failed": "panic",
    "core::cell::RefCell::<T>::borrow_mut": "refcell",
    "core::cell::RefCell::<T>::borrow": "refcell",
    "core::slice::<impl [T]>::copy_from_slice": "slice-op",
    "core::slice::<impl [T]>::clone_from_slice": "slice-op",
    "core::slice::<impl [T]>::split_at": "slice-op",
    "core::slice::<impl [T]>::split_at_mut": "slice-op",
    "core::slice::<impl [T]>::chunks": "slice-op",
    "core::slice::<impl [T]>::chunks_exact": "slice-op",
    "core::slice::<impl [T]>::windows": "slice-op",
    "core::slice::<impl [T]>::swap": "slice-op",
    "core::slice::<impl [T]>::rotate_left": "slice-op",
    "core::slice::<impl [T]>::rotate_right": "slice-op",
    "core::str::<impl str>::split_at": "slice-op",
    "alloc::vec::Vec::<T, A>::remove": "vec-op",
    "alloc::vec::Vec::<T, A>::swap_remove": "vec-op",
    "alloc::vec::Vec::<T, A>::insert": "vec-op",
    "alloc::vec::Vec::<T, A>::drain": "vec-op",
    "alloc::vec::Vec::<T, A>::split_off": "vec-op",
    "alloc::vec::Vec::<T, A>::truncate": None,  # does not panic
    "alloc::string::String::remove": "vec-op",
    "alloc::string::String::insert": "vec-op",
    "alloc::string::String::insert_str": "vec-op",
    "alloc::string::String::drain": "vec-op",
    "alloc::string::String::split_off": "vec-op",
    "alloc::string::String::replace_range": "vec-op",
    "alloc::collections::vec_deque::VecDeque::<T, A>::remove": None,
    "core::char::methods::<impl char>::from_digit": "panic",
    "core::char::methods::<impl char>::to_digit": "panic",
    "core::num::<impl u32>::pow": None,
    "core::num::<impl usize>::next_power_of_two": None,
    "core::num::<impl usize>::div_ceil": None,
}

INDEX_TRAITS = ("core::ops::index::Index::index", "core::ops::index::IndexMut::index_mut")


def load_table():
    p = os.path.join(VERIF, "tables", "panic_ok.json")
    try:
        return json.load(open(p))
    except FileNotFoundError:
        return {"entries": []}


def _nm(body, op):
    """stable, human-readable description of an operand: user names / field paths / call names / constants"""
    if op is None:
        return "?"
    o = mir.origin(body, op)
    return _desc(body, o, 0)


def _desc(body, o, depth):
    if o[0] == "const":
        k = o[1]
        if "v" in k and not isinstance(k["v"], dict):
            return repr(k["v"])
        if "cdef" in k:
            return k["cdef"].rsplit("::", 1)[-1]
        if "pv" in k and not isinstance(k["pv"], dict):
            return "&" + repr(k["pv"])
        return "const"
    if o[0] == "call":
        c = o[1]
        n = c.callee.rsplit("::", 1)[-1]
        if depth < 2 and c.args and n in ("len", "deref", "deref_mut", "as_ref", "as_slice", "as_bytes", "clone", "into",
                                          "from", "try_into", "try_from", "borrow", "as_str", "unwrap", "bytes", "as_mut"):
            return "%s(%s)" % (n, _desc(body, mir.origin(body, c.args[0]), depth + 1))
        return n + "()"
    if o[0] in ("place", "ref"):
        return ("&" if o[0] == "ref" else "") + _place(body, o[1])
    if o[0] == "rv":
        rv = o[1]
        if rv[0] == "bin":
            return "%s(%s,%s)" % (rv[1].replace("WithOverflow", ""), _desc(body, mir.origin(body, rv[2]), depth + 1) if depth < 2 else "..",
                                  _desc(body, mir.origin(body, rv[3]), depth + 1) if depth < 2 else "..")
        if rv[0] == "agg":
            inner = ",".join(_desc(body, mir.origin(body, x), depth + 1) for x in rv[4]) if depth < 2 else ".."
            return "%s{%s}" % ((rv[2] or rv[1]).rsplit("::", 1)[-1], inner)
        if rv[0] == "un":
            return "%s(%s)" % (rv[1], _desc(body, mir.origin(body, rv[2]), depth + 1) if depth < 2 else "..")
        if rv[0] == "discr":
            return "discr(%s)" % _place(body, rv[1])
        return rv[0]
    return "?"


def _place(body, pl):
    l, proj = pl
    nm = body.locals[l][1]
    if nm is None:
        if 0 < l <= body.d["argc"]:
            nm = "arg%d" % l
        else:
            # anonymous temp: describe by its definition kind
            d = mir.single_def(body, l)
            if d and d[0] == "call":
                nm = d[1].callee.rsplit("::", 1)[-1] + "()"
            elif d and d[0] == "assign" and d[4][0] == "bin":
                # tuple result of a checked op: render the operation itself
                rv = d[4]
                s = "%s(%s,%s)" % (rv[1].replace("WithOverflow", ""), _desc(body, mir.origin(body, rv[2]), 1), _desc(body, mir.origin(body, rv[3]), 1))
                rest = [p for p in proj if not (isinstance(p, list) and p[0] == "." and p[1] in (0, 1) and p[3] == "tuple")]
                if len(rest) == len(proj) - 1 or not proj:
                    proj = rest
                    nm = s
                else:
                    nm = s
            else:
                nm = "tmp"
    s = nm
    for p in proj:
        if p == "*":
            continue
        if isinstance(p, list) and p[0] == ".":
            s += "." + p[2]
        elif isinstance(p, list) and p[0] == "as":
            s += "@" + p[1]
        elif isinstance(p, list) and p[0] == "[]":
            s += "[i]"
        else:
            s += "[..]"
    return s


def roots_of(body, op):
    """(set of root locals, set of 'local.field…' place strings) an operand derives from (through arithmetic, casts, calls to len/deref...)"""
    out = set()
    seen = set()

    def walk(op, depth):
        if op is None or op[0] == "k" or depth > 10:
            return
        o = mir.origin(body, op)
        if o[0] in ("place", "ref"):
            l = o[1][0]
            key = (l, tuple(mir.place_fields(o[1])))
            out.add(key)
            out.add((l, ()))
            # a multi-def or named local: also follow each definition one level (x = y + 1)
            if (l, "defs") not in seen and depth < 4:
                seen.add((l, "defs"))
                for d in mir.defs_of(body, l):
                    if d[0] == "assign" and not d[3][1]:
                        for x in mir.rvalue_operands(d[4]):
                            walk(x, depth + 1)
        elif o[0] == "call":
            for a in o[1].args[:2]:
                walk(a, depth + 1)
        elif o[0] == "rv":
            for x in mir.rvalue_operands(o[1]):
                walk(x, depth + 1)

    walk(op, 0)
    return out


class Site:
    __slots__ = ("body", "b", "kind", "shape", "line", "ops", "extra", "expn")

    def __init__(self, body, b, kind, shape, line, ops, extra=None, expn=None):
        self.body, self.b, self.kind, self.shape, self.line, self.ops, self.extra, self.expn = body, b, kind, shape, line, ops, extra, expn

    @property
    def key(self):
        return "%s|%s|%s" % (self.body.id, self.kind, self.shape)

    @property
    def where(self):
        return "%s:%d" % (self.body.file, self.line)


def sites_in(body):
    """panic-capable sites of one body"""
    out = []
    live = mir.live_blocks(body)
    for b, blk in enumerate(body.blocks):
        if b not in live or blk.get("c"):
            continue
        t = blk["t"]
        if t[0] == "assert":
            kind = t[3][0]
            if kind.startswith("resumed") or kind in ("misaligned", "nullptr", "invalid_enum"):
                continue
            if kind == "bounds":
                ln, idx = t[3][1], t[3][2]
                # the indexed container: find the Len/PtrMetadata source of `len`
                shape = "%s[%s]" % (_len_container(body, ln), _nm(body, idx))
                out.append(Site(body, b, "bounds", shape, t[6], [idx, ln], expn=t[7]))
            elif kind == "overflow":
                op, a, c = t[3][1], t[3][2], t[3][3]
                ty = _op_type(body, a) or _op_type(body, c) or "?"
                shape = "%s:%s(%s,%s)" % (ty, op, _nm(body, a), _nm(body, c))
                out.append(Site(body, b, "overflow-" + op.lower(), shape, t[6], [a, c], extra=ty, expn=t[7]))
            elif kind == "overflow_neg":
                out.append(Site(body, b, "overflow-neg", _nm(body, t[3][1]), t[6], [t[3][1]], expn=t[7]))
            elif kind in ("div_zero", "rem_zero"):
                out.append(Site(body, b, kind, _nm(body, t[3][1]), t[6], [t[3][1]], expn=t[7]))
        elif t[0] == "call":
            c = mir.Call(body, b, t[1])
            kind = None
            for n in c.names():
                if n in PANIC_CALLS:
                    kind = PANIC_CALLS[n]
                    break
            expn = c.c.get("x") or ""
            if kind is None and (c.declared in INDEX_TRAITS or any(n.endswith("::index") or n.endswith("::index_mut") for n in c.names()) and
                                 c.c.get("trait") in ("core::ops::index::Index", "core::ops::index::IndexMut")):
                # indexing through the Index trait: slices / Vec / str with usize or ranges; HashMap index panics too
                argty = (c.c.get("argtys") or ["?", "?"])
                idxty = argty[1] if len(argty) > 1 else "?"
                if "RangeFull" in idxty:
                    continue  # x[..] cannot panic
                kind = "index"
                shape = "%s[%s : %s]" % (_nm(body, c.args[0]), _nm(body, c.args[1]) if len(c.args) > 1 else "?", _short_ty(idxty))
                out.append(Site(body, b, kind, shape, c.line, list(c.args), expn=expn))
                continue
            if kind is None:
                continue
            if kind == "panic":
                # classify by the macro that produced it
                m = "panic"
                for tag in ("unreachable!", "unimplemented!", "todo!", "assert!", "assert_eq!", "assert_ne!", "debug_assert!",
                            "debug_assert_eq!", "debug_assert_ne!", "panic!"):
                    if tag in expn:
                        m = tag
                        break
                shape = m
                out.append(Site(body, b, "panic", shape, c.line, [], expn=expn))
            elif kind == "assert":
                out.append(Site(body, b, "panic", "assert_eq!", c.line, [], expn=expn))
            else:
                shape = "%s(%s)" % (c.callee.rsplit("::", 1)[-1], ",".join(_nm(body, a) for a in c.args[:3]))
                out.append(Site(body, b, kind, shape, c.line, list(c.args), expn=expn))
    return out


def _short_ty(t):
    return t.replace("core::ops::range::", "").replace("core::ops::", "")


def _op_type(body, op):
    if op[0] == "k":
        return op[1].get("ty")
    pl = op[1]
    if not pl[1]:
        return body.locals[pl[0]][0]
    last = pl[1][-1]
    if isinstance(last, list) and last[0] == ".":
        return last[4]
    return None


def _len_container(body, len_op):
    o = mir.origin(body, len_op)
    if o[0] == "rv":
        rv = o[1]
        if rv[0] == "un" and rv[1] == "PtrMetadata":
            return _nm(body, rv[2])
        if rv[0] == "len":
            return _place(body, rv[1])
    if o[0] == "const":
        return "array[%s]" % (o[1].get("v"),)
    return _desc(body, o, 0)


# ------------------------------------------------------------------------------------------ guards
def related_guard(body, site):
    """A comparison / emptiness / length test that dominates the site and mentions a root of the site's operands.
    Returns a description or None."""
    roots = set()
    for op in site.ops:
        roots |= roots_of(body, op)
    if not roots:
        return None
    strong = {r for r in roots if r[1]} or roots
    for sb, op, l, r, tt, ft, ln in mir.cmp_switches(body):
        if sb == site.b:
            continue
        rl, rr = roots_of(body, l), roots_of(body, r)
        if not ((rl | rr) & roots):
            continue
        for edge in (tt, ft):
            if edge is not None and mir.block_dominates(body, edge, site.b) and _single_pred_edge(body, sb, edge):
                return "%s(%s,%s) at line %d" % (op, _nm(body, l), _nm(body, r), ln)
    for sb, c, tt, ft, neg in mir.call_bool_switches(body):
        n = c.callee.rsplit("::", 1)[-1]
        if n not in ("is_empty", "is_some", "is_none", "is_ok", "is_err", "contains", "contains_key", "starts_with", "ends_with",
                     "is_char_boundary", "eq", "ne", "lt", "le", "gt", "ge", "is_power_of_two", "is_ascii_digit"):
            continue
        cr = set()
        for a in c.args[:2]:
            cr |= roots_of(body, a)
        if not (cr & roots):
            continue
        for edge in (tt, ft):
            if edge is not None and mir.block_dominates(body, edge, site.b) and _single_pred_edge(body, sb, edge):
                return "%s(%s) at line %d" % (n, ",".join(_nm(body, a) for a in c.args[:2]), c.line)
    # match on Option/Result discriminant of a checked_* / get() result feeding the site
    for sb, place, adt, arms, other in mir.discr_switches(body, None):
        if adt not in ("core::option::Option", "core::result::Result"):
            continue
        pr = roots_of(body, ["c", place])
        o = mir.origin(body, ["c", [place[0], []]])
        if o[0] == "call" and o[1].callee.rsplit("::", 1)[-1] in ("checked_sub", "checked_add", "checked_mul", "get", "get_mut",
                                                                   "checked_div", "split_first", "split_last", "first", "last",
                                                                   "position", "iter().position", "find", "rposition", "strip_prefix",
                                                                   "strip_suffix", "try_from", "try_into", "binary_search"):
            ar = set()
            for a in o[1].args[:2]:
                ar |= roots_of(body, a)
            if (ar | pr) & roots:
                for edge in list(arms.values()):
                    if mir.block_dominates(body, edge, site.b):
                        return "match %s() at bb%d" % (o[1].callee.rsplit("::", 1)[-1], sb)
    return None


def _single_pred_edge(body, sb, edge):
    """the edge block is entered only from the switch (so dominance by it means 'on that outcome')"""
    p = [x for x in mir.preds(body)[edge] if x in mir.live_blocks(body)]
    return p == [sb] or all(mir.block_dominates(body, edge, x) or x == sb for x in p)


WIDE_OK = ("usize", "u64", "isize", "i64", "u128", "i128")

NEG = {"Lt": "Ge", "Le": "Gt", "Gt": "Le", "Ge": "Lt", "Eq": "Ne", "Ne": "Eq"}
FLIP = {"Lt": "Gt", "Le": "Ge", "Gt": "Lt", "Ge": "Le", "Eq": "Eq", "Ne": "Ne"}


def dominating_facts(body, site):
    """Relational facts that hold at the site because of dominating comparison edges:
    list of (rel, desc_x, desc_y, const_x, const_y, line) meaning  x rel y."""
    out = []
    for sb, op, l, r, tt, ft, ln in mir.cmp_switches(body):
        if sb == site.b:
            continue
        for edge, rel in ((tt, op), (ft, NEG[op])):
            if edge is None or not mir.block_dominates(body, edge, site.b) or not _single_pred_edge(body, sb, edge):
                continue
            kl, kr = mir.resolve_const(body, l), mir.resolve_const(body, r)
            cl = kl.get("v") if kl and isinstance(kl.get("v"), int) else None
            cr = kr.get("v") if kr and isinstance(kr.get("v"), int) else None
            out.append((rel, _nm(body, l), _nm(body, r), cl, cr, ln))
    for sb, c, tt, ft, neg in mir.call_bool_switches(body):
        n = c.callee.rsplit("::", 1)[-1]
        if n != "is_empty" or not c.args:
            continue
        cont = _nm(body, c.args[0])
        if ft is not None and mir.block_dominates(body, ft, site.b) and _single_pred_edge(body, sb, ft):
            # not empty: len(cont) >= 1
            for d in {cont, cont.lstrip("&")}:
                out.append(("Ge", "len(%s)" % d, "1", None, 1, c.line))
    return out


def _lower_bound(facts, desc):
    """largest constant K such that the dominating facts imply desc >= K"""
    best = None
    for rel, x, y, cx, cy, ln in facts:
        lb = None
        if x == desc and cy is not None:
            lb = {"Gt": cy + 1, "Ge": cy, "Eq": cy}.get(rel)
        elif y == desc and cx is not None:
            lb = {"Lt": cx + 1, "Le": cx, "Eq": cx}.get(rel)
        if lb is not None and (best is None or lb > best):
            best = lb
    return best


def _implies_le(facts, a, b, strict=False):
    """dominating facts imply a <= b (or a < b when strict), a and b operand descriptions"""
    for rel, x, y, cx, cy, ln in facts:
        if x == a and y == b and rel in (("Lt",) if strict else ("Lt", "Le", "Eq")):
            return "%s %s %s (line %d)" % (x, rel, y, ln)
        if x == b and y == a and rel in (("Gt",) if strict else ("Gt", "Ge", "Eq")):
            return "%s %s %s (line %d)" % (x, rel, y, ln)
    return None


def strict_guard(body, site):
    """A dominating comparison that *implies* the site's safety condition on syntactically identical operand
    descriptions. Returns description or None."""
    fs = dominating_facts(body, site)
    if not fs:
        return None
    if site.kind == "overflow-sub":
        a, b = site.ops
        da, db = _nm(body, a), _nm(body, b)
        kb = mir.resolve_const(body, b)
        if kb is not None and isinstance(kb.get("v"), int):
            lb = _lower_bound(fs, da)
            if lb is not None and lb >= kb["v"]:
                return "%s >= %d established before subtracting %d" % (da, lb, kb["v"])
            return None
        g = _implies_le(fs, db, da)
        return g
    if site.kind == "bounds":
        idx, ln = site.ops
        cont = _len_container(body, ln)
        di = _nm(body, idx)
        ki = mir.resolve_const(body, idx)
        lens = {"len(%s)" % cont, "len(%s)" % cont.lstrip("&"), "len(&%s)" % cont.lstrip("&")}
        if ki is not None and isinstance(ki.get("v"), int):
            for L in lens:
                lb = _lower_bound(fs, L)
                if lb is not None and lb > ki["v"]:
                    return "%s >= %d established before indexing [%d]" % (L, lb, ki["v"])
            return None
        for L in lens:
            g = _implies_le(fs, di, L, strict=True)
            if g:
                return g
        return None
    if site.kind == "index" and len(site.ops) > 1:
        cont = _nm(body, site.ops[0])
        base = cont
        for pre in ("deref(", "deref_mut(", "as_ref("):
            if base.startswith(pre) and base.endswith(")"):
                base = base[len(pre):-1]
        lens = {"len(%s)" % cont, "len(%s)" % base, "len(%s)" % base.lstrip("&"), "len(&%s)" % base.lstrip("&")}
        o = mir.origin(body, site.ops[1])
        if o[0] == "rv" and o[1][0] == "agg":
            rng = (o[1][2] or "").rsplit("::", 1)[-1]
            items = o[1][4]
            upper = None
            if rng in ("Range", "RangeTo") and items:
                upper = items[-1]
            elif rng == "RangeFrom" and items:
                upper = items[0]
            if upper is not None:
                du = _nm(body, upper)
                for L in lens:
                    g = _implies_le(fs, du, L)
                    if g:
                        return g + " [upper bound only; start <= end not decided]"
        return None
    return None


def classify(body, site, table_idx, buckets=None, used=None):
    """-> (status, how) with status in 'assume' | 'guard' | 'table' | 'open'.
    Table lookup: exact key first; otherwise the (function, kind) bucket of the table while it has capacity left —
    so renaming a local or a field (which changes the printed operand shape) does not raise an alarm, while an
    additional site of that kind in that function does."""
    ent = table_idx.get(site.key)
    fk = (site.body.id, site.kind)
    if ent is None and buckets is not None and fk in buckets:
        bk = buckets[fk]
        if used.get(fk, 0) < bk["count"]:
            ent = {"why": bk["why"] + " [matched by function+kind; operand shape differs from the reviewed one]", "guard": bk["guard"]}
    if ent is not None:
        if used is not None:
            used[fk] = used.get(fk, 0) + 1
        if ent.get("guard"):
            g = strict_guard(body, site) or related_guard(body, site)
            if g is None:
                return "open", "table line requires a dominating guard, none found (%s)" % ent.get("why", "")
            return "table", "%s; guard: %s" % (ent.get("why", ""), g)
        return "table", ent.get("why", "")
    if site.kind in ("overflow-add", "overflow-mul", "overflow-shl") and site.extra in WIDE_OK:
        return "assume", "64-bit %s arithmetic on lengths/positions" % site.extra
    g = strict_guard(body, site)
    if g is not None:
        return "guard", g
    return "open", "no recognised guard, no table line"


def audit(ctx, facts, roots, rule, crates=None, extra_stop=None, label="", edge_ok=None):
    """Audit every panic site in the closure of `roots` (body ids). crates: restrict *reported* sites to these crates."""
    cg = callgraph.get(facts)
    reach = cg.reach(roots, stop=extra_stop, edge_ok=edge_ok)
    table = load_table()
    idx = {}
    buckets = {}
    for e in table.get("entries", []):
        idx[e["key"]] = e
        fn, kind, _ = e["key"].split("|", 2)
        bk = buckets.setdefault((fn, kind), {"count": 0, "guard": False, "why": e.get("why", "")})
        bk["count"] += e.get("count", 1)
        bk["guard"] = bk["guard"] or bool(e.get("guard"))
    n_sites = 0
    stats = {"assume": 0, "guard": 0, "table": 0, "open": 0}
    fns = 0
    for bid in sorted(reach):
        body = facts.bodies.get(bid)
        if body is None:
            continue
        if crates is not None and body.crate not in crates:
            continue
        fns += 1
        used = {}
        ss = sites_in(body)
        # exact-key sites first so that they consume their own bucket capacity before fallbacks do
        ss.sort(key=lambda s: (s.key not in idx, s.line))
        for s in ss:
            if s.expn and any(t in s.expn for t in ("format_args!", "derive(", "Deserialize<", "Serialize<")) and s.kind not in ("panic",):
                continue
            n_sites += 1
            fk = (body.id, s.kind)
            if s.key in idx and fk in buckets and used.get(fk, 0) >= buckets[fk]["count"]:
                st, how = "open", "more occurrences of this site than the table allows (%d)" % buckets[fk]["count"]
            else:
                st, how = classify(body, s, idx, buckets, used)
            stats[st] += 1
            ctx.ob(rule, label + s.key, st != "open", "%s: %s" % (st, how), s.where)
    ctx.extra.setdefault("panic_audit", {})[label or rule] = {
        "functions_in_closure": len(reach), "functions_audited": fns, "sites": n_sites, **stats}
    return reach, stats
