"""Fact loading: runs the zmir extractor on /repo's current working tree (cached by tree hash)."""
import fcntl, glob, hashlib, json, os, pickle, shutil, subprocess, sys, time

VERIF = os.path.dirname(os.path.dirname(os.path.abspath(__file__)))
REPO = os.environ.get("ZMIR_REPO", "/repo")
CACHE = os.path.join(VERIF, ".cache", "facts")

CONFIGS = {
    # name: (root crate, cargo args)
    "K1": ("zbus", ["-p", "zbus", "--features", "p2p,bus-impl"]),
    "K2": ("zvariant", ["-p", "zvariant", "--features", "gvariant,option-as-array"]),
    "K3": ("zbus", ["-p", "zbus", "--no-default-features", "--features", "tokio,p2p"]),
    "K4": ("zbus", ["-p", "zbus", "--features", "p2p", "--tests"]),
    "K5": ("zbus_xmlgen", ["-p", "zbus_xml", "-p", "zbus_xmlgen"]),
    # K6: /verif/fixtures/ifaces (a crate of our own that path-depends on the tree under analysis) plus
    # the zbus library it links: #[interface] expansions no in-repo fixture contains (spawn = false, ...).
    "K6": ("zverif_ifaces", ["--lib"]),
}
FIXTURES = {"K6": ("ifaces", "zbus zverif_ifaces")}  # config -> (dir under /verif/fixtures, crates to dump)


def cache_key(config, repo=None):
    """tree hash of the repo, extended by the fixture sources for fixture configurations"""
    th = tree_hash(repo)
    fx = FIXTURES.get(config)
    if not fx:
        return th
    h = hashlib.sha256(th.encode())
    base = os.path.join(VERIF, "fixtures", fx[0])
    for root, dirs, files in os.walk(base):
        dirs.sort()
        for f in sorted(files):
            h.update(os.path.relpath(os.path.join(root, f), base).encode() + b"\0")
            with open(os.path.join(root, f), "rb") as fh:
                h.update(fh.read())
    for extra in ("run_zmir.sh", "crate_filter.sh"):
        with open(os.path.join(VERIF, "engine", extra), "rb") as fh:
            h.update(fh.read())
    return h.hexdigest()[:24]


def tree_hash(repo=None):
    repo = repo or REPO
    h = hashlib.sha256()
    paths = []
    for root, dirs, files in os.walk(repo):
        dirs[:] = sorted(d for d in dirs if d not in ("target", ".git", "book", "CI", "test-data"))
        for f in sorted(files):
            if f.endswith(".rs") or f in ("Cargo.toml", "Cargo.lock", "build.rs") or f.endswith(".toml"):
                paths.append(os.path.join(root, f))
    for p in paths:
        h.update(os.path.relpath(p, repo).encode())
        h.update(b"\0")
        with open(p, "rb") as fh:
            h.update(fh.read())
        h.update(b"\0")
    # the extractor itself is part of the key
    drv = os.path.join(VERIF, "engine", "zmir", "src", "main.rs")
    with open(drv, "rb") as fh:
        h.update(fh.read())
    return h.hexdigest()[:24]


class Body:
    __slots__ = ("d", "id", "name", "kind", "root", "file", "span", "blocks", "locals", "crate",
                 "_succ", "_pred", "_dom", "_pdom", "_calls")

    def __init__(self, d, crate):
        self.d = d
        self.id = d["id"]
        self.name = d.get("name", "")
        self.kind = d["kind"]
        self.root = d.get("root", d["id"])
        self.file = d.get("file", "?")
        self.span = d.get("span", [0, 0, 0, 0])
        self.blocks = d["blocks"]
        self.locals = d["locals"]
        self.crate = crate
        self._succ = self._pred = self._dom = self._pdom = self._calls = None

    def __repr__(self):
        return "<Body %s>" % self.id

    @property
    def where(self):
        return "%s:%d" % (self.file, self.span[0])

    def get(self, k, default=None):
        return self.d.get(k, default)


class Facts:
    def __init__(self, config, crates, info):
        self.config = config
        self.info = info
        self.crates = crates  # crate name -> raw dict
        self.bodies = {}      # id -> Body (first) ; collisions kept in self.dups
        self.dups = {}
        self.by_name = {}
        self.children = {}    # root id -> [Body]
        self.adts = {}
        self.consts = {}
        self.statics = {}
        self.impls = []
        self.fnsigs = {}
        self.coroutines = {}
        # library builds first, then test units: a `--test` build of a library repeats every library
        # body under the same id; only its test-only bodies are added
        order = sorted(crates.items(), key=lambda kv: ("#test" in kv[0], kv[0]))
        for cname, d in order:
            is_test_unit = "#test" in cname
            for b in d["bodies"]:
                body = Body(b, cname)
                if is_test_unit and body.id in self.bodies and self.bodies[body.id].crate == d["crate"]:
                    continue
                if body.id in self.bodies:
                    self.dups.setdefault(body.id, [self.bodies[body.id]]).append(body)
                else:
                    self.bodies[body.id] = body
                self.by_name.setdefault(body.name, []).append(body)
                if body.root != body.id:
                    self.children.setdefault(body.root, []).append(body)
            for a in d["adts"]:
                self.adts.setdefault(a["id"], a)
            for c in d["consts"]:
                self.consts.setdefault(c["id"], c)
            for s in d["statics"]:
                self.statics.setdefault(s["id"], s)
            seen_impls = {(i["id"], i.get("file"), i.get("line")) for i in self.impls} if is_test_unit else set()
            for i in d["impls"]:
                if (i["id"], i.get("file"), i.get("line")) in seen_impls:
                    continue
                i["crate"] = cname
                self.impls.append(i)
            for f in d["fns"]:
                self.fnsigs.setdefault(f["id"], f)
            for c in d["coroutines"]:
                self.coroutines.setdefault(c["id"], c)

    # ---- lookup helpers
    def all_bodies(self, crate=None):
        for b in self.bodies.values():
            if crate is None or b.crate == crate:
                yield b
        for lst in self.dups.values():
            for b in lst[1:]:
                if crate is None or b.crate == crate:
                    yield b

    def byid(self, ident):
        return self.bodies.get(ident)

    def find(self, name=None, adt=None, trait=None, path_contains=None, kind=None, crate=None, self_contains=None):
        """Bodies (typeck roots only unless kind given) matching all given criteria."""
        out = []
        cands = self.by_name.get(name, []) if name is not None else list(self.all_bodies())
        for b in cands:
            d = b.d
            if crate and b.crate != crate:
                continue
            if adt is not None and d.get("impl_adt") != adt:
                continue
            if trait is not None:
                t = d.get("impl_trait")
                if trait == "":
                    if t is not None:
                        continue
                elif t != trait:
                    continue
            if self_contains is not None and self_contains not in (d.get("impl_self") or ""):
                continue
            if path_contains is not None and path_contains not in b.id:
                continue
            if kind is not None and b.kind != kind:
                continue
            out.append(b)
        return out

    def family(self, body):
        """body + closures/coroutines nested in it (transitively, by typeck root)."""
        root = body.root
        out = [self.bodies[root]] if root in self.bodies else [body]
        out += self.children.get(root, [])
        return out

    def adt_variant_by_discr(self, adt_id, discr):
        a = self.adts.get(adt_id)
        if not a:
            return None
        for v in a["variants"]:
            if str(v["discr"]) == str(discr):
                return v["name"]
        return None


def _select_target_builds(files, root_crate):
    """Pick, per crate, the build that the root crate links (follow --extern edges).
    Test units (rustc --test) are returned separately."""
    by_extra = {}
    per_crate = {}
    tests = []
    for f, d in files:
        if d.get("is_test"):
            tests.append(d)
            continue
        per_crate.setdefault(d["crate"], []).append(d)
        by_extra[(d["crate"], d["extra"])] = d
    chosen = {}
    work = list(per_crate.get(root_crate, []))[:1]
    if not work:
        work = [ds[0] for ds in per_crate.values()]
    while work:
        d = work.pop()
        if d["crate"] in chosen:
            continue
        chosen[d["crate"]] = d
        for e in d["externs"]:
            _follow(e, by_extra, work, chosen)
    for t in tests:
        for e in t["externs"]:
            _follow(e, by_extra, work, chosen)
    while work:
        d = work.pop()
        if d["crate"] in chosen:
            continue
        chosen[d["crate"]] = d
        for e in d["externs"]:
            _follow(e, by_extra, work, chosen)
    # proc-macro crates and other host-only crates that nothing links by rmeta name
    for c, ds in per_crate.items():
        if c not in chosen:
            chosen[c] = ds[0]
    return chosen, tests


def _follow(e, by_extra, work, chosen):
    # "name=/path/libname-hash.rmeta"
    if "=" not in e:
        return
    name, path = e.split("=", 1)
    base = os.path.basename(path)
    if not base.startswith("lib"):
        return
    stem = base[3:].rsplit(".", 1)[0]
    if "-" not in stem:
        return
    cr, hsh = stem.rsplit("-", 1)
    d = by_extra.get((cr, "-" + hsh))
    if d is not None and d["crate"] not in chosen:
        work.append(d)


def extract(config, out_dir, repo=None):
    root, args = CONFIGS[config]
    env = dict(os.environ)
    if repo:
        env["ZMIR_REPO"] = repo
    fx = FIXTURES.get(config)
    if fx:
        env["ZMIR_FIXTURE"], env["ZMIR_ONLY"] = fx
    t = time.time()
    rc = subprocess.call([os.path.join(VERIF, "engine", "run_zmir.sh"), out_dir] + args, env=env)
    return rc, time.time() - t


def load(config, repo=None, quiet=False):
    """Facts of `config` for the current working tree of the repo (extracting if not cached)."""
    repo = repo or REPO
    th = cache_key(config, repo)
    d = os.path.join(CACHE, config, th)
    os.makedirs(os.path.join(CACHE, config), exist_ok=True)
    lock = open(os.path.join(CACHE, config, th + ".lock"), "w")
    fcntl.flock(lock, fcntl.LOCK_EX)
    info = {"config": config, "tree_hash": th, "cargo_args": CONFIGS[config][1], "cached": True}
    try:
        if not os.path.exists(os.path.join(d, "DONE")):
            info["cached"] = False
            tmp = d + ".tmp"
            shutil.rmtree(tmp, ignore_errors=True)
            shutil.rmtree(d, ignore_errors=True)
            rc, secs = extract(config, tmp, repo)
            info["extract_s"] = round(secs, 1)
            if rc == 0 and cache_key(config, repo) != th:
                # the tree was edited while cargo was compiling it: the facts describe neither tree state
                shutil.rmtree(tmp, ignore_errors=True)
                raise ExtractError("the source tree changed during fact extraction for %s; run the check again" % config)
            if rc != 0:
                log = ""
                try:
                    log = open(os.path.join(tmp, "cargo.log")).read()[-3000:]
                except Exception:
                    pass
                raise ExtractError("fact extraction failed for %s (rc=%s)\n%s" % (config, rc, log))
            open(os.path.join(tmp, "DONE"), "w").write(json.dumps(info))
            os.rename(tmp, d)
            # drop older tree states of this config
            olds = [o for o in glob.glob(os.path.join(CACHE, config, "*"))
                    if os.path.isdir(o) and o != d and not o.endswith(".tmp")]
            olds.sort(key=os.path.getmtime, reverse=True)
            now = time.time()
            for old in olds[int(os.environ.get("ZCHECK_KEEP", "8")):]:
                # never evict a recent entry: another process may be reading it
                if now - os.path.getmtime(old) > 3 * 3600:
                    shutil.rmtree(old, ignore_errors=True)
    finally:
        fcntl.flock(lock, fcntl.LOCK_UN)
        lock.close()
    pk = os.path.join(d, "facts.pickle")
    files = None
    if os.path.exists(pk):
        try:
            with open(pk, "rb") as fh:
                crates, extra_units = pickle.load(fh)
            files = True
        except Exception:
            files = None
    if files is None:
        loaded = []
        for f in sorted(glob.glob(os.path.join(d, "*.json"))):
            with open(f) as fh:
                loaded.append((f, json.load(fh)))
        if not loaded:
            raise ExtractError("no fact files in %s" % d)
        chosen, extra_units = _select_target_builds(loaded, CONFIGS[config][0])
        crates = chosen
        try:
            with open(pk + ".tmp", "wb") as fh:
                pickle.dump((crates, extra_units), fh, protocol=pickle.HIGHEST_PROTOCOL)
            os.rename(pk + ".tmp", pk)
        except Exception:
            pass
    # test units (K4): merge their bodies under a distinct crate key
    allc = dict(crates)
    for i, u in enumerate(extra_units):
        allc["%s#test%d" % (u["crate"], i)] = u
    f = Facts(config, allc, info)
    info["crates"] = {k: {"bodies": len(v["bodies"]), "features": v.get("features", [])} for k, v in allc.items()}
    return f


class ExtractError(Exception):
    pass
