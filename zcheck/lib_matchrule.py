"""Anchors shared by C21 / C22: the fields of zbus::match_rule::MatchRule, its one-field accessors,
and where a body reads each field (directly or through an accessor)."""
from . import mir
from . import lib_strflow as sf

RULE = "zbus::match_rule::MatchRule"
PATHSPEC = "zbus::match_rule::PathSpec"
BUILDER = "zbus::match_rule::builder::Builder"


def rule_fields(ctx, f):
    a = f.adts.get(RULE)
    ctx.need([a] if a else [], "ADT " + RULE)
    return [(x[0], x[1]) for x in a["variants"][0]["fields"]]


def fields_touched(body, owner=RULE):
    """names of `owner` fields that appear in any place of the body"""
    out = set()

    def scan(pl):
        for p in pl[1]:
            if isinstance(p, list) and p[0] == "." and p[3] == owner:
                out.add(p[2])
    for b, i, pl, rv, ln in mir.assignments(body):
        scan(pl)
        for op in mir.rvalue_operands(rv):
            if op[0] != "k":
                scan(op[1])
    for c in mir.calls(body):
        for a in c.args:
            if a[0] != "k":
                scan(a[1])
    return out


def accessors(f):
    """{fn id: field} for inherent `&self` methods of MatchRule whose body touches exactly one field"""
    out = {}
    for b in f.find(adt=RULE, trait=""):
        if b.kind != "AssocFn" or b.d.get("argc") != 1:
            continue
        t = fields_touched(b)
        if len(t) == 1 and not f.children.get(b.id):
            out[b.id] = next(iter(t))
    return out


def field_reads(f, body, self_locals, acc=None):
    """{field: [(seed local, where-line, block)]}: results of accessor calls on self, and locals assigned from a
    place that projects the field out of a MatchRule."""
    acc = acc if acc is not None else accessors(f)
    st = sf.Taint(body, set(self_locals))
    out = {}
    for c in mir.calls(body):
        fld = acc.get(c.callee)
        if fld is not None and c.args and st.is_alias(c.args[0]):
            out.setdefault(fld, []).append((c.dest[0], c.line, c.b))
    for b, i, pl, rv, ln in mir.assignments(body):
        for op in mir.rvalue_operands(rv):
            if op[0] == "k":
                continue
            for p in op[1][1]:
                if isinstance(p, list) and p[0] == "." and p[3] == RULE:
                    out.setdefault(p[2], []).append((pl[0], ln, b))
    return out


def payload_enum(f, ty):
    """for a field type Option<E<..>> with E an enum of zbus::match_rule: (E id, [variant names])"""
    inner = ty
    if inner.startswith("core::option::Option<") and inner.endswith(">"):
        inner = inner[len("core::option::Option<"):-1]
    name = inner.split("<")[0]
    a = f.adts.get(name)
    if a and a["kind"] == "Enum" and name.startswith("zbus::match_rule"):
        return name, [v["name"] for v in a["variants"]]
    return None, []


def components(f, body, field, ty, seeds):
    """Sub-seeds of a field read: {component name: set(locals)}.
       Vec<(A, B)> fields: `field.0`, `field.1` = locals assigned from a tuple-field projection of data
       derived from the field; Option<enum of this module>: `field.Variant` = locals assigned from a
       downcast of the field's payload. Empty when the body does not take the field apart."""
    t = sf.Taint(body, set(seeds))
    out = {}
    en, variants = payload_enum(f, ty)
    for b, i, pl, rv, ln in mir.assignments(body):
        for op in mir.rvalue_operands(rv):
            if op[0] == "k" or not (op[1][0] in t.alias or op[1][0] in t.comp):
                continue
            proj = op[1][1]
            if ty.startswith("alloc::vec::Vec<("):
                last = [p for p in proj if isinstance(p, list) and p[0] == "."]
                if last and last[-1][3] == "tuple":
                    out.setdefault("%s.%d" % (field, last[-1][1]), set()).add(pl[0])
            if en:
                for p in proj:
                    if isinstance(p, list) and p[0] == "as" and p[1] in variants and op[1][0] in t.alias:
                        out.setdefault("%s.%s" % (field, p[1]), set()).add(pl[0])
    return out
