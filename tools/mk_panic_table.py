#!/usr/bin/env python3
"""Authoring aid for /verif/tables/panic_ok.json: resolves reviewed (function-substring, kind, shape-substring)
patterns against the panic sites the audit currently enumerates, and writes exact keys. The JSON table is the
reviewed artefact that is committed; this script only saves typing. Run: tools/mk_panic_table.py C04 C12 ..."""
import json, os, sys
HERE = os.path.dirname(os.path.dirname(os.path.abspath(__file__)))
sys.path.insert(0, HERE)
from zcheck import facts, panics, callgraph

# (fn substring, kind, shape substring, why, guard?, count?)
R = [
 # ---- container depths
 ("ContainerDepths::inc_", "overflow-add", "u8:Add(self.", "counter <= its limit (32/32/64) before the increment: every inc_* returns through check(), which rejects > limit, and callers keep the result only on Ok", False),
 ("ContainerDepths::dec_", "overflow-sub", "u8:Sub(self.", "each dec_* is paired with a preceding successful inc_* of the same counter (property C07 R-PAIR decides the pairing)", False),
 ("ContainerDepths::check", "overflow-add", "u8:Add(", "structure,array <= 33 and variant,maybe <= 65 (each increment is followed by this check): the sum is < 256", False, 5),
 # ---- constructors asserting the format
 ("::de::Deserializer::<'de, 'sig, 'f, F>::new", "panic", "assert_eq!", "format of the context: every caller selects the (de)serializer type by matching on ctxt.format()", False),
 ("::ser::Serializer::<'ser, W>::new", "panic", "assert_eq!", "format of the context: every caller selects the (de)serializer type by matching on ctxt.format()", False),
 ("gvariant::de::ArrayDeserializer::<'d, 'de, 'sig, 'f, F>::element_end", "panic", "assert_eq!", "ArrayDeserializer of the gvariant module is only built by the GVariant deserializer (ctxt copied from it)", False),
 # ---- D-Bus decoder
 ("dbus::de::Deserializer<'de, '_, '_, F> as serde_core::de::Deserializer<'de>>::deserialize_u8::{closure#0}", "bounds", "bytes[0]", "slice comes from next_const_size_slice::<u8>() = next_slice(1): length 1", False),
 ("dbus::de::Deserializer<'de, '_, '_, F> as serde_core::de::Deserializer<'de>>::deserialize_str", "bounds", "[0]", "len_slice / the terminator byte come from next_slice(1): length 1", False, 2),
 ("dbus::de::ArrayDeserializer::<'d, 'de, 'sig, 'f, F>::next", "overflow-sub", "Sub(self.de.0.pos,self.start)", "inside the `pos > start + len` error branch, so pos > start", True),
 ("dbus::de::StructureDeserializer::<'d, 'de, 'sig, 'f, F>::new", "panic", "unreachable!", "only called from deserialize_seq/deserialize_tuple after matching Signature::Structure", False),
 ("dbus::de::StructureDeserializer<'_, 'de, '_, '_, F> as serde_core::de::SeqAccess<'de>>::next_element_seed", "panic", "unreachable!", "the signature was matched as Structure when the StructureDeserializer was built and is not changed in between", False),
 ("dbus::de::ValueDeserializer<'_, 'de, '_, '_, F> as serde_core::de::SeqAccess<'de>>::next_element_seed", "bounds", "self.de.0.bytes[self.sig_start]", "the Signature stage (always run first by Value's visitors, errors propagated) read this very byte through next_slice(1)", False),
 ("de::DeserializerCommon::<'de, '_, '_, F>::parse_padding", "bounds", "self.bytes[Add(self.pos,", "i < padding and pos + padding <= len was established by the dominating check", True),
 # ---- GVariant decoder
 ("gvariant::de::Deserializer<'de, 'sig, 'f, F> as serde_core::de::Deserializer<'de>>::deserialize_str", "bounds", "[Sub(len(", "index len-1 under the dominating `len > 0` test", True),
 ("gvariant::de::Deserializer<'de, 'sig, 'f, F> as serde_core::de::Deserializer<'de>>::deserialize_str", "index", "RangeTo{Sub(len(", "..len-1 of the same slice under the dominating `len > 0` test", True),
 ("gvariant::de::Deserializer<'de, 'sig, 'f, F> as serde_core::de::Deserializer<'de>>::deserialize_option", "overflow-sub", "Sub(len(self.0.bytes),1)", "else-branch of `pos == len`; pos <= len is the deserializer invariant, so len >= 1", True),
 ("gvariant::de::ArrayDeserializer::<'d, 'de, 'sig, 'f, F>::new", "overflow-sub", "Sub(len(de.0.bytes),de.0.pos)", "pos <= len invariant (parse_padding just succeeded: it rejects pos + padding > len)", False),
 ("gvariant::de::ArrayDeserializer::<'d, 'de, 'sig, 'f, F>::new", "overflow-sub", "Sub(len,", "offsets_len = container.len() - offsets_start with offsets_start <= container.len() checked in from_encoded_array; container = bytes[pos..] so offsets_len <= len", False),
 ("gvariant::de::ArrayDeserializer<'d, 'de, 'sig, 'f, F> as serde_core::de::SeqAccess<'de>>::next_element_seed", "overflow-sub", "Sub(self.de.0.pos,self.start)", "inside the `pos > start + len` error branch", True),
 ("gvariant::de::ArrayDeserializer<'d, 'de, 'sig, 'f, F> as serde_core::de::MapAccess<'de>>::next_key_seed", "overflow-sub", "Sub(self.de.0.pos,self.start)", "inside the `pos > start + len` error branch", True),
 ("gvariant::de::ArrayDeserializer<'d, 'de, 'sig, 'f, F> as serde_core::de::MapAccess<'de>>::next_value_seed", "overflow-sub", "Sub(self.de.0.pos,self.start)", "inside the `pos > start + len` error branch", True),
 ("gvariant::de::ArrayDeserializer<'d, 'de, 'sig, 'f, F> as serde_core::de::MapAccess<'de>>::next_key_seed", "index", "self.de.0.bytes[Range{self.de.0.pos,", "pos <= element_end by the dominating test; element_end = start + offset with offset <= offsets_start <= len(bytes) - start validated in from_encoded_array", True),
 ("gvariant::de::ArrayDeserializer<'d, 'de, 'sig, 'f, F> as serde_core::de::MapAccess<'de>>::next_value_seed", "unwrap", "unwrap(as_ref(&self.value_signature))", "next_value_seed is only called by serde after next_key_seed on a dict: value_signature is Some for Signature::Dict (set in new())", False),
 ("gvariant::de::StructureDeserializer::<'d, 'de, 'sig, 'f, F>::new", "panic", "unreachable!", "only called after matching Signature::Structure", False),
 ("gvariant::de::StructureDeserializer::<'d, 'de, 'sig, 'f, F>::new", "overflow-sub", "Sub(len(de.0.bytes),de.0.pos)", "pos <= len invariant (parse_padding just succeeded)", False),
 ("gvariant::de::StructureDeserializer<'d, 'de, 'sig, 'f, F> as serde_core::de::SeqAccess<'de>>::next_element_seed", "panic", "unreachable!", "signature matched as Structure at construction and unchanged", False),
 ("gvariant::de::ValueDeserializer::<'d, 'de, 'sig, 'f, F>::new", "bounds", "de.0.bytes[", "i ranges over pos..len-1 of the same slice (non-empty checked above)", True),
 ("gvariant::de::ValueDeserializer::<'d, 'de, 'sig, 'f, F>::new", "index", "de.0.bytes[RangeFrom{de.0.pos}", "pos <= len invariant (parse_padding just succeeded)", False),
 # ---- framing offsets
 ("FramingOffsetSize::for_bare_container", "expect", "expect(bump_up()", "bump_up() is None only beyond U64, whose max() is usize::MAX: the loop returns before", False),
 ("FramingOffsetSize::read_last_offset_from_buffer", "bounds", "buffer[Sub(len(buffer),1)]", "buffer non-empty (checked above)", True),
 ("FramingOffsetSize::read_last_offset_from_buffer", "overflow-sub", "Sub(len(buffer),", "PRECONDITION buffer.len() >= width: established per call site by rule P-PRE (width derived from the same buffer length, or an explicit length check)", True, 3),
 ("FramingOffsetSize::read_last_offset_from_buffer", "index", "buffer[Range{Sub(len(buffer),", "PRECONDITION buffer.len() >= width: established per call site by rule P-PRE", True, 3),
 ("FramingOffsets::from_encoded_array", "overflow-sub", "Sub(len(container),i)", "i = offsets_start <= len(container) by the dominating check", True),
 # ---- serializers
 ("dbus::ser::SeqSerializer::<'_, '_, W>::end_seq", "overflow-sub", "i64:Sub(", "total_array_len >= 4 by construction (array_len + padding + 4)", False),
 ("ser::SeqSerializer::<'_, '_, W>::end_seq", "overflow-sub", "Sub(self.ser.0.bytes_written,self.start)", "start is an earlier snapshot of bytes_written, which only grows (SerializerCommon::write adds)", False),
 ("ser::SeqSerializer::<'ser, 'b, W>::end_seq", "overflow-sub", "Sub(self.ser.0.bytes_written,self.start)", "start is an earlier snapshot of bytes_written, which only grows", False),
 ("dbus::ser::SeqSerializer::<'_, '_, W>::end_seq", "overflow-neg", "Add(", "total_array_len is a non-negative i64 (< 2^32 + 12 after usize_to_u32)", False),
 ("gvariant::ser::SeqSerializer<'ser, 'b, W> as serde_core::ser::SerializeSeq>::serialize_element", "overflow-sub", "Sub(self.ser.0.bytes_written,self.start)", "start is an earlier snapshot of bytes_written, which only grows", False),
 ("gvariant::ser::StructSerializer::<'ser, 'b, W>::serialize_struct_element", "overflow-sub", "Sub(self.ser.0.bytes_written,self.start)", "start is an earlier snapshot of bytes_written, which only grows", False),
 ("gvariant::ser::StructSerializer::<'ser, 'b, W>::end_struct", "overflow-sub", "Sub(self.ser.0.bytes_written,self.start)", "start is an earlier snapshot of bytes_written, which only grows", False),
 ("gvariant::ser::MapSerializer<'ser, 'b, W> as serde_core::ser::SerializeMap>::serialize_value", "overflow-sub", "Sub(", "start / key_start are earlier snapshots of bytes_written, which only grows", False, 3),
 ("::ser::StructSerializer::<'ser, 'b, W>::serialize_struct_element", "panic", "unreachable!", "signature matched as Structure/Variant when the StructSerializer was built", False, 2),
 ("::ser::StructSeqSerializer<'ser, 'b, W> as serde_core::ser::Serialize", "panic", "unreachable!", "the Struct/Seq variant is fixed at construction (serialize_tuple*/serialize_struct* build Struct, serialize_seq builds Seq); the arm mixes them only on API misuse by a foreign Serialize impl, not for zvariant::Value", False),
 ("dbus::ser::Serializer<'ser, W> as serde_core::ser::Serializer>::serialize_none", "panic", "unreachable!", "documented unsupported configuration (Option in D-Bus format without option-as-array): depends on the Rust type being encoded, not on decoded input; a Value decoded from D-Bus cannot contain a Maybe", False),
 ("dbus::ser::Serializer<'ser, W> as serde_core::ser::Serializer>::serialize_some", "panic", "unreachable!", "documented unsupported configuration (Option in D-Bus format without option-as-array): depends on the Rust type being encoded, not on decoded input", False),
 ("zvariant::ser::serialized_size", "panic", "unreachable!", "the size pass constructs FdList::Number itself a few lines above", False),
 ("zvariant::ser::to_writer_for_signature", "panic", "unreachable!", "the write pass constructs FdList::Fds itself a few lines above", False),
 ("SerializerCommon::<'_, W>::add_fd", "overflow-add", "u32:Add(n,1)", "counts file descriptors of one value: < 2^32", False),
 ("SerializerCommon::<'_, W>::add_padding", "index", "const[RangeTo{padding_for_n_bytes()}", "padding < alignment <= 8 = length of the zero array (alignment tables return 1,2,4,8: C01 T-ALIGN / C05 T-GALIGN)", False),
 ("zvariant::utils::padding_for_n_bytes", "panic", "assert!", "alignment arguments come from the alignment tables (1,2,4,8) or constants: C01 T-ALIGN / C05 T-GALIGN decide the tables", False),
 ("zvariant::utils::usize_to_u32", "panic", "assert!", "ASSUMPTION: an encoded array/string is shorter than 4 GiB (D-Bus limits messages to 128 MiB)", False),
 ("zvariant::utils::usize_to_u8", "panic", "assert!", "signature strings are at most 255 bytes (validated when a Signature is parsed)", False),
 ("serialized::data::Data::<'bytes, 'fds>::bytes", "index", "Range{self.range.start,self.range.end}", "range is constructed within bounds of the shared buffer by Data::new / slice (slice asserts its arguments)", False),
 # ---- message parsing (C12)
 ("zbus::message::Message::quick_fields::{closure#0}", "unwrap", "unwrap(deserialize())", "lazy path for messages built by Builder / already accepted by from_raw_parts: the same bytes deserialized as a Header successfully when the message was created", False),
 ("zbus::message::fields::FieldPos::read", "index", "msg_buf[Range{self.start,self.end}", "start..end were computed by FieldPos::build from a &str borrowed out of this very buffer when the header was parsed (callers pass the message's own bytes: QuickFields accessors)", False),
 ("zbus::message::fields::FieldPos::read", "expect", "expect(from_utf8()", "the range was a &str of the same buffer at parse time", False),
 ("zbus::message::fields::FieldPos::read", "expect", "expect(map()", "the field value was validated (TryFrom of the same str) when the header was parsed", False),
 ("zbus::message::header::PrimaryHeader::read", "bounds", "buf[0]", "callers pass the 16-byte primary header they have just read (socket reader reads MIN_MESSAGE_SIZE first; C14 decides that read loop)", False),
 ("zbus::message::header::PrimaryHeader::read_from_data", "panic", "assert_eq!", "a PrimaryHeader is the fixed-size struct (yyyyuu): a successful decode from offset 0 consumes exactly 12 bytes", False),
 ("zvariant::serialized::data::Data::<'bytes, 'fds>::slice", "overflow-sub", "Sub(self.range.end,self.range.start)", "Data invariant: range.start <= range.end (only built by new/new_fds/slice)", False),
 ("zvariant::serialized::data::Data::<'bytes, 'fds>::slice", "panic", "assert!", "PRECONDITION start <= end <= len per call site: rule M-LEN (message body offset) and the PRIMARY_HEADER_SIZE.. slices taken after a successful 12-byte decode", False, 2),
 # ---- value model
 ("zvariant::array::Array::<'a>::new_full_signature", "panic", "assert!", "callers pass a signature they matched as Array", False),
 ("zvariant::array::Array::<'a>::append", "panic", "unreachable!", "Array.signature is an Array signature by construction (new / new_full_signature assert)", False),
 ("zvariant::dict::Dict::<'k, 'v>::new_full_signature", "panic", "assert!", "callers pass a signature they matched as Dict", False),
 ("zvariant::dict::Dict::<'k, 'v>::append", "panic", "unreachable!", "Dict.signature is a Dict signature by construction", False),
 ("zvariant::optional::Optional<T> as serde_core::", "panic", "panic!", "depends only on the Rust type parameter (Optional<bool>), never on input bytes", False),
 ("zvariant::value::ValueSeed<'_, T> as serde_core::de::Visitor<'de>>::visit_some", "panic", "panic!", "without gvariant there is no Signature::Maybe, and deserialize_option (the only caller of visit_some/none) is requested by ValueSeed only for Maybe", False),
 ("zvariant::value::ValueSeed<'_, T> as serde_core::de::Visitor<'de>>::visit_none", "panic", "panic!", "without gvariant there is no Signature::Maybe, and deserialize_option is requested by ValueSeed only for Maybe", False),
 ("DynamicDeserialize<'de>>::deserializer_for_signature", "unwrap", "unwrap(next())", "match guard `fields.len() == 1` precedes it", False),
 ("as_value::serialize::serialize_optional", "unwrap", "unwrap(as_ref(value))", "API contract of #[serde(with = \"as_value::optional\", skip_serializing_if = \"Option::is_none\")]; a serialization helper for user structs, not on the decode or Value re-encode path", False),
 ("zvariant_utils::signature::Signature::string_len", "bounds", ".fields[i]", "i < fields.len() loop bound", True, 1),
 ("zvariant_utils::signature::Signature::to_string_no_parens", "unwrap", "unwrap(write_as_string())", "fmt::Write into a String cannot fail", False),
 ("zvariant_utils::signature::Signature::to_string", "unwrap", "unwrap(write_as_string())", "fmt::Write into a String cannot fail", False),
]


def main():
    sys.argv[1:] or sys.exit("usage: mk_panic_table.py C04 [C12 ...]")
    import importlib
    sites = {}
    for pid in sys.argv[1:]:
        mod = importlib.import_module("zcheck.rules." + pid)
        for cfg, rootfn, crates in mod.AUDITS:
            f = facts.load(cfg)
            cg = callgraph.get(f)
            reach = cg.reach(rootfn(f))
            for bid in sorted(reach):
                b = f.bodies.get(bid)
                if not b or (crates and b.crate not in crates):
                    continue
                for s in panics.sites_in(b):
                    sites.setdefault(s.key, []).append((cfg, s.where))
    entries = {}
    unused = set(range(len(R)))
    for key in sorted(sites):
        fn, kind, shape = key.split("|", 2)
        for i, r in enumerate(R):
            if r[0] in fn and r[1] == kind and r[2] in shape:
                e = {"key": key, "why": r[3]}
                if r[4]:
                    e["guard"] = True
                if len(r) > 5:
                    e["count"] = r[5]
                e["seen_at"] = sorted({w for c, w in sites[key]})[:3]
                entries[key] = e
                unused.discard(i)
                break
    out = {"_comment": "Reviewed panic-site table for R-PANIC (zcheck/panics.py). key = function id | kind | operand shape. "
                       "'guard': true means a dominating test related to the site's operands must also be present. "
                       "'seen_at' is informational only (not used for matching).",
           "entries": [entries[k] for k in sorted(entries)]}
    json.dump(out, open(os.path.join(HERE, "tables", "panic_ok.json"), "w"), indent=1)
    print("wrote %d entries; %d patterns unused:" % (len(entries), len(unused)))
    for i in sorted(unused):
        print("   unused:", R[i][:3])


if __name__ == "__main__":
    main()
