#!/usr/bin/env python3
"""usage: save_seed.py <worktree> <id> --caught-by "C14:NO-TRUNC" [--missed-first "..."] [--confirm-log file]
Copies SEED/patch.diff, SEED/demo, meta into /verif/seeded/<id>/ with the lead's confirmation record."""
import json, os, shutil, sys
wt, sid = sys.argv[1], sys.argv[2]
args = sys.argv[3:]
def opt(name, default=None):
    return args[args.index(name) + 1] if name in args else default
dst = os.path.join("/verif/seeded", sid)
shutil.rmtree(dst, ignore_errors=True)
os.makedirs(dst)
shutil.copy(os.path.join(wt, "SEED", "patch.diff"), os.path.join(dst, "patch.diff"))
shutil.copytree(os.path.join(wt, "SEED", "demo"), os.path.join(dst, "demo"))
m = json.load(open(os.path.join(wt, "SEED", "meta.json")))
conf = opt("--confirm")
meta = {
    "property": m.get("property"),
    "summary": m.get("summary"),
    "needs_to_manifest": m.get("needs_to_manifest"),
    "files_changed": m.get("files_changed"),
    "demo_cmd": m.get("demo_cmd"),
    "author": "independent sub-agent given only the property text and a scratch worktree",
    "author_verified": m.get("verified"),
    "lead_confirmed": {
        "how": "tools/confirm_seed.sh in the scratch worktree: pinned suite with the change (BASELINE.stable_pass all pass), demo with the change (fails), demo with the patch reversed (passes)",
        "result": conf,
    },
    "checks": [c.split(":")[0] for c in (opt("--caught-by", "") or "").split(",") if c],
    "caught_by": opt("--caught-by"),
    "missed_at_first": opt("--missed-first"),
    "checked_with": "tools/try_seed.sh <patch> <checks> (git -C /repo apply; ./check; git checkout)",
}
json.dump(meta, open(os.path.join(dst, "meta.json"), "w"), indent=1)
print("saved", dst)
