#!/bin/bash
# usage: confirm_seed.sh <worktree> ; the worktree has the change applied (uncommitted) and the demo in place.
# Confirms: (1) pinned suite passes with the change, (2) demo fails with the change, (3) demo passes without it.
WT="$1"; cd "$WT" || exit 2
export CARGO_TARGET_DIR=/tmp/seed-confirm-target-$(basename "$WT") CARGO_NET_OFFLINE=true
CMD=$(python3 -c "import json;print(json.load(open('SEED/meta.json'))['demo_cmd'])" | sed -E 's/CARGO_TARGET_DIR=[^ ]+ //')
echo "demo: $CMD"
git apply --check -R SEED/patch.diff || { echo "PATCH-NOT-APPLIED"; exit 2; }
# (1) baseline with the change
rm -f target/nextest/pb/junit.xml
cargo nextest run --workspace --no-fail-fast --tool-config-file pb:/w/lib/nextest.toml --profile pb --test-threads 8 --offline -E 'not (test(/c1[0-9]_|seed_|struct_depth|object_tree_grandchild/))' >/tmp/confirm_base.log 2>&1
python3 - "$WT" <<'PY'
import json, sys, glob, xml.etree.ElementTree as ET
b = json.load(open('/root/.vp/BASELINE.json')); passed = set()
for fn in glob.glob(sys.argv[1] + '/target/nextest/pb/junit.xml'):
    for tc in ET.parse(fn).getroot().iter('testcase'):
        if tc.find('failure') is None and tc.find('error') is None and tc.find('skipped') is None:
            passed.add((tc.get('classname') or '') + '::' + (tc.get('name') or ''))
miss = sorted(set(b['stable_pass']) - passed)
print('BASELINE-WITH-CHANGE: passed %d, missing %d %s' % (len(passed), len(miss), miss[:5]))
PY
# (2) demo with change
timeout 900 bash -c "$CMD" >/tmp/confirm_with.log 2>&1; echo "DEMO-WITH-CHANGE rc=$? ($(grep -E '^test result' /tmp/confirm_with.log | tail -1))"
# (3) demo without change
git apply -R SEED/patch.diff
timeout 900 bash -c "$CMD" >/tmp/confirm_without.log 2>&1; echo "DEMO-WITHOUT-CHANGE rc=$? ($(grep -E '^test result' /tmp/confirm_without.log | tail -1))"
git apply SEED/patch.diff
rm -rf "$CARGO_TARGET_DIR"
