#!/usr/bin/env python3
"""One-off helper: split findings/allfixes.diff (developed in a scratch worktree) into one `fix:` commit per defect in /repo."""
import re, subprocess, sys
GROUPS = [
 ("fix: check the nul terminator of D-Bus strings\n\nThe decoder skipped the byte after a string without reading it, so a string followed by a\nnon-nul byte (or by nothing) was accepted and one byte too many was reported as consumed.", [('zvariant/src/dbus/de.rs', '// The string must be followed by a nul byte.')]),
 ("fix: validate object paths decoded inside variants\n\nValueSeed built the ObjectPath unchecked, so e.g. `a//` inside a variant was accepted.", [('zvariant/src/value.rs', 'Signature::ObjectPath => ObjectPath::try_from(v)')]),
 ("fix: order signatures of different kinds consistently with Eq\n\n`Signature::cmp` returned `Equal` for any two signatures of different kinds while `==` is false.", [('zvariant_utils/src/signature/mod.rs', '// Different kinds of signatures: order them by kind so that `cmp` is consistent with `eq`.')]),
 ("fix: GVariant struct decoding reads a framing offset from a too small buffer\n\nThe offset width is chosen for the whole struct but the buffer shrinks by one offset per\nfield: `(s*130)` with 257 zero bytes panicked with a subtract overflow.", [('zvariant/src/gvariant/de.rs', 'let container = subslice(self.de.0.bytes, self.start..self.end)?;')]),
 ("fix: don't index before the start of the handshake buffer\n\nA line feed as the very first buffered byte made `recv_buffer[lf_index - 1]` underflow.", [('zbus/src/connection/handshake/common.rs', "if lf_index == 0 || self.recv_buffer[lf_index - 1] != b'\\r' {")]),
 ("fix: reject message buffers shorter than the message they announce\n\nEmpty input panicked at `bytes[0]`; a buffer ending before the body offset was accepted and\n`Message::body()` then panicked in `Data::slice`.", [('zbus/src/message/mod.rs', 'if bytes.is_empty() {'), ('zbus/src/message/mod.rs', '// The buffer must contain the whole message: header, padding and the body it announces.')]),
 ("fix: path_namespace matches the namespace and its children only\n\n`path_namespace='/foo'` matched `/foobar`.", [('zbus/src/match_rule/mod.rs', 'PathSpec::PathNamespace(path_ns) => {')]),
 ("fix: a match rule with a destination doesn't match messages without one", [('zbus/src/match_rule/mod.rs', 'Some(BusName::Unique(_)) => (),')]),
 ("fix: keep object tree nodes that still have children\n\nRemoving the last interface of a parent dropped its whole subtree, and removing the last\ninterface of `/` panicked. The parent of a top-level object is `/`, not the empty path.", [('zbus/src/object_server/mod.rs', 'let Some(last_part) = path_parts.next() else {'), ('zbus/src/object_server/node.rs', '// A node with children is still needed as their parent.')]),
 ("fix: release the object tree lock before calling property handlers\n\nA property handler that uses the object server (e.g. `server.at(..)`) never returned.", [('zbus/src/fdo/properties.rs', '// Release the object tree lock before calling into the interface: a property handler may'), ('zbus/src/fdo/properties.rs', '// Release the object tree lock before calling into the interface: a property handler may'), ('zbus/src/fdo/properties.rs', '// Release the object tree lock before calling into the interface: a property handler may')]),
 ("fix: EXTERNAL with an empty response needs known peer credentials\n\n`AUTH EXTERNAL` / `DATA` / `BEGIN` authenticated a peer whose credentials are unknown, while\n`AUTH EXTERNAL <uid>` is rejected in the same situation.", [('zbus/src/connection/handshake/server.rs', '(AuthMechanism::External, Command::Data(None)) => {')]),
 ("fix: serialize_bytes must write all bytes and check the length\n\n`Write::write` may write only part of the buffer and `as u32` silently truncates.", [('zvariant/src/dbus/ser.rs', '.write_u32(self.0.ctxt.endian(), usize_to_u32(v.len()))'), ('zvariant/src/gvariant/ser.rs', '.write_all(v)')]),
 ("fix: D-Bus alignment of a maybe signature\n\nAsking for the D-Bus alignment of `m..` (e.g. decoding a D-Bus variant whose signature from\nthe wire is `ams`) hit `unreachable!`.", [('zvariant_utils/src/signature/mod.rs', '// D-Bus has no maybe type; the only D-Bus encoding of one is as an array (`option-as-array`).')]),
 ("fix: a GUID is exactly 32 hex digits\n\n`Uuid::try_parse` also accepts the hyphenated, braced and URN forms.", [('zbus/src/guid.rs', '// A D-Bus GUID is exactly 32 hex digits; `Uuid::try_parse` alone would also accept the')]),
 ("fix: restore the signature after an enum variant\n\nEncoding/decoding an enum with a struct-like variant left the variant's inner signature\nbehind, so the second element of a `Vec` of such enums failed with a signature mismatch.", [('zvariant/src/dbus/de.rs', "// `deserialize_identifier` leaves the signature of the variant's payload behind: restore"), ('zvariant/src/dbus/ser.rs', '// The original signature. We restore to that at the end (an enum variant temporarily'), ('zvariant/src/dbus/ser.rs', 'let signature = ser.0.signature;'), ('zvariant/src/dbus/ser.rs', 'let signature = ser.0.signature;'), ('zvariant/src/dbus/ser.rs', 'let signature = ser.0.signature;'), ('zvariant/src/dbus/ser.rs', '// Restore the original container depths and signature.'), ('zvariant/src/gvariant/ser.rs', '// The original signature. We restore to that at the end (an enum variant temporarily'), ('zvariant/src/gvariant/ser.rs', 'let signature = ser.0.signature;'), ('zvariant/src/gvariant/ser.rs', 'let signature = ser.0.signature;'), ('zvariant/src/gvariant/ser.rs', 'let signature = ser.0.signature;'), ('zvariant/src/gvariant/ser.rs', '// Restore the original container depths and signature.')]),
 ("fix: width of a GVariant dict entry's key offset\n\nThe width must be chosen for the entry including the offset: an entry of 255 bytes got a\n1-byte offset that the decoder (correctly) looks for as 2 bytes.", [('zvariant/src/gvariant/ser.rs', '// The width of the offset depends on the size of the entry including the offset itself.')]),
 ("fix: file descriptors left over from the handshake may belong to a later message\n\nA message without fds was rejected when fds were left over, and a message needing more fds\nthan were left over panicked in `drain`.", [('zbus/src/connection/socket/mod.rs', '// The previously received FDs may belong to a later message (then none are pending for')]),
 ("fix: comparing a structure signature with a string checks the parentheses", [('zvariant_utils/src/signature/mod.rs', "if !other.starts_with('(') || !other.ends_with(')') {")]),
 ("fix: option-as-array must contain exactly the decoded element", [('zvariant/src/dbus/de.rs', 'let start = ad.start;'), ('zvariant/src/dbus/de.rs', '// The array must contain exactly the one element that was decoded.')]),
 ("fix: messages received over a channel get a receive position", [('zbus/src/connection/socket/channel.rs', 'seq: u64,')]),
 ("fix: an unknown AUTH mechanism is answered with REJECTED\n\n`AUTH KERBEROS_V4` made the server abort the handshake with a parse error.", [("zbus/src/connection/handshake/command.rs", "// A mechanism we don't know is not a parse error: the server answers it with")]),
 ("fix: a rule for the bus driver's signals only matches messages the driver sent\n\nWell-known senders were never compared, so a peer's unicast `NameOwnerChanged`/`NameLost`/\n`NameAcquired` with interface `org.freedesktop.DBus` was taken for the bus driver's.", [("zbus/src/match_rule/mod.rs", "// The bus driver is the one peer that sends under a well-known name, its own.")]),
 ("fix: Proxy::call_with_flags honours the connection's method timeout", [('zbus/src/proxy/mod.rs', 'Some(reply) => {')]),
]


def main():
    repo = sys.argv[1] if len(sys.argv) > 1 else "/repo"
    d = open("/verif/findings/allfixes.diff").read()
    files = re.split(r"(?m)^diff --git ", d)[1:]
    hunks = []  # (file header, hunk text)
    for f in files:
        head, *hs = re.split(r"(?m)^@@ ", f)
        for h in hs:
            hunks.append(("diff --git " + head, "@@ " + h))
    used = set()

    def find(path, marker):
        out = []
        for i, (head, h) in enumerate(hunks):
            if head.split()[2][2:] != path:
                continue
            added = [l[1:].strip() for l in h.splitlines() if l.startswith("+") and l[1:].strip()]
            if added and added[0] == marker:
                out.append(i)
        return out

    for msg, marks in GROUPS:
        byfile = {}
        idxs = []
        for path, marker in marks:
            for i in find(path, marker):
                if i not in idxs:
                    idxs.append(i)
        assert idxs, ("no hunk for", msg)
        for i in sorted(idxs):
            used.add(i)
            byfile.setdefault(hunks[i][0], []).append(hunks[i][1])
        patch = "".join(h + "".join(v) for h, v in byfile.items())
        p = subprocess.run(["git", "-C", repo, "apply", "--recount", "--unidiff-zero", "-"], input=patch, text=True, capture_output=True)
        if p.returncode != 0:
            p = subprocess.run(["patch", "-p1", "-d", repo, "--no-backup-if-mismatch"], input=patch, text=True, capture_output=True)
            if p.returncode != 0:
                print("FAILED to apply", msg.splitlines()[0], p.stdout, p.stderr)
                return 1
        subprocess.check_call(["git", "-C", repo, "commit", "-qam", msg])
        print("committed:", msg.splitlines()[0])
    assert used == set(range(len(hunks))), set(range(len(hunks))) - used
    return 0


if __name__ == "__main__":
    sys.exit(main())
