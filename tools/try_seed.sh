#!/bin/bash
# usage: try_seed.sh <patch.diff> <Cxx> [Cyy ...] — apply to /repo, run the checks (evidence to a temp dir), undo
P="$1"; shift
cd /repo || exit 2
git diff --quiet || { echo "/repo has uncommitted changes"; exit 2; }
git apply "$P" || { echo "patch does not apply"; exit 2; }
EV=$(mktemp -d /tmp/seedev.XXXX)
for c in "$@"; do
  ( cd /verif && ZCHECK_EVIDENCE_DIR=$EV ZCHECK_REPLAY_DIR=$EV ./check $c 2>&1 | grep -E "FAIL|VIOLATION|^C[0-9]+:" | cut -c1-300 )
done
git -C /repo checkout -- . ; git -C /repo status --short | head -3
rm -rf "$EV"
