#!/bin/bash
# usage: baseline_check.sh [repo-dir]  — runs the pinned test command (hooks off) and compares with BASELINE.stable_pass
R="${1:-/repo}"
cd "$R" || exit 2
rm -f target/nextest/pb/junit.xml
cargo nextest run --workspace --no-fail-fast --tool-config-file pb:/w/lib/nextest.toml --profile pb --test-threads 8 --offline >/tmp/baseline_check.log 2>&1
python3 /w/lib/parse_tests.py --kind junit --glob "$R/target/nextest/pb/junit.xml" > /tmp/baseline_check.json 2>/dev/null || python3 - "$R" <<'PY'
PY
python3 - "$R" <<'PY'
import json, sys, glob, xml.etree.ElementTree as ET
b = json.load(open('/root/.vp/BASELINE.json'))
passed = set()
for fn in glob.glob(sys.argv[1] + '/target/nextest/pb/junit.xml'):
    for tc in ET.parse(fn).getroot().iter('testcase'):
        if tc.find('failure') is None and tc.find('error') is None and tc.find('skipped') is None:
            passed.add((tc.get('classname') or '') + '::' + (tc.get('name') or ''))
sp = set(b['stable_pass'])
miss = sorted(sp - passed)
print('passed %d, baseline stable_pass %d, missing %d' % (len(passed), len(sp), len(miss)))
for m in miss: print('  MISSING', m)
sys.exit(1 if miss else 0)
PY
