#!/bin/bash
# usage: mk_seed.sh Cxx [suffix]  -> creates worktree /tmp/seed-Cxx<suffix> and prompt /verif/tools/agents/seed_Cxx<suffix>.txt
P="$1"; S="${2:-}"
WT=/tmp/seed-$P$S
git -C /repo worktree add -q --detach "$WT" HEAD || exit 1
python3 - "$P" "$WT" "$S" <<'PY'
import json, sys
pid, wt, suf = sys.argv[1], sys.argv[2], sys.argv[3]
rec = None
for l in open('/verif/properties.jsonl'):
    r = json.loads(l)
    if r['id'] == pid: rec = r
rec.pop('added_in_round', None); rec.pop('source', None)
a = rec.get('anchors', {}); a.pop('hook_needed', None)
txt = json.dumps(rec, indent=1)
t = open('/verif/tools/seed_prompt.txt').read()
t = t.replace('{WT}', wt).replace('{TAG}', 'seed-%s%s' % (pid, suf)).replace('{PROPERTY}', txt).replace('{PID}', pid)
open('/verif/tools/agents/seed_%s%s.txt' % (pid, suf), 'w').write(t)
print('ok', wt)
PY
