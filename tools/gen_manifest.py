#!/usr/bin/env python3
"""Generate /verif/MANIFEST.json from the rule modules' META tables and tools/not_applicable.json."""
import importlib, json, os, sys
HERE = os.path.dirname(os.path.dirname(os.path.abspath(__file__)))
sys.path.insert(0, HERE)

BASELINE_OFF = ("cd /repo && cargo nextest run --workspace --no-fail-fast --test-threads 8 --offline "
                "|| cargo test --workspace --no-fail-fast --offline")


def main():
    props = [json.loads(l) for l in open(os.path.join(HERE, "properties.jsonl"))]
    na = json.load(open(os.path.join(HERE, "tools", "not_applicable.json")))
    checks, not_app, engines_serves = [], [], []
    for p in props:
        pid = p["id"]
        modpath = os.path.join(HERE, "zcheck", "rules", pid + ".py")
        if pid in na:
            not_app.append({"property_id": pid, "reason": na[pid]})
            continue
        if not os.path.exists(modpath):
            not_app.append({"property_id": pid, "reason": "no static check built yet for this property (work in progress; see DESIGN.md §5." + pid + ")"})
            continue
        mod = importlib.import_module("zcheck.rules." + pid)
        meta = getattr(mod, "META", {})
        engines_serves.append(pid)
        checks.append({
            "property_id": pid,
            "quick_cmd": "./check %s --tier quick" % pid,
            "thorough_cmd": "./check %s --tier thorough" % pid,
            "evidence_file": "/verif/evidence/%s.json" % pid,
            "replay_cmd_template": "./check %s --replay {path}" % pid,
            "engine": meta.get("engine", "zmir+zcheck"),
            "technique": meta.get("technique", "static analysis: custom MIR rules (rustc_private fact extractor + rule library)"),
            "level_claimed": {
                "category": "other",
                "text": meta.get("level", (mod.__doc__ or "").strip().split("\n\n")[0])[:1500],
                "design_ref": "DESIGN.md §5." + pid,
            },
            "level_note": meta.get("note", "Decides the structural clauses listed in DESIGN §5.%s on every path of the analysed "
                                   "configurations; does not decide the value-level remainder stated there. Trusted: rustc nightly "
                                   "front end + MIR construction, the zmir extractor, the rule library, reviewed tables under /verif/tables "
                                   "and spec tables under /verif/spec." % pid),
        })
    man = {
        "version": 1,
        "setup_cmd": "./setup.sh",
        "hooks": {
            "guard": "zbus_verif",
            "enable": "none needed: static analysis reads /repo as it is (guard name reserved: RUSTFLAGS=--cfg zbus_verif)",
            "baseline_off_cmd": BASELINE_OFF,
            "source_commits": [],
            "add_only": True,
        },
        "engines": [
            {"name": "zmir", "path": "/verif/engine/zmir", "serves_properties": engines_serves,
             "kind_free_text": "rustc_private MIR fact extractor run as RUSTC_WORKSPACE_WRAPPER under cargo +nightly check --offline"},
            {"name": "zcheck", "path": "/verif/zcheck", "serves_properties": engines_serves,
             "kind_free_text": "Python rule library over the facts: CFG, dominators, switch tables, held-across-await, who-may-call, pairing"},
        ],
        "checks": checks,
        "not_applicable": not_app,
        "notes": "Static analysis only. See DESIGN.md. Known findings: /verif/known_findings.json.",
    }
    with open(os.path.join(HERE, "MANIFEST.json"), "w") as fh:
        json.dump(man, fh, indent=1)
    print("MANIFEST: %d checks, %d not applicable" % (len(checks), len(not_app)))


if __name__ == "__main__":
    main()
