#!/bin/bash
# RUSTC_WRAPPER for fixture configurations: hand only the crates named in $ZMIR_ONLY to the zmir
# driver, everything else (registry crates, other path dependencies) to the real rustc.
rustc="$1"; shift
name=""
prev=""
for a in "$@"; do
  [ "$prev" = "--crate-name" ] && { name="$a"; break; }
  prev="$a"
done
for c in $ZMIR_ONLY; do
  [ "$c" = "$name" ] && exec "$ZMIR_DRV" "$rustc" "$@"
done
ZMIR_OUT= exec "$rustc" "$@"
