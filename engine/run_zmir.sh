#!/bin/bash
# usage: run_zmir.sh <out-dir> <cargo check args...>   (cwd = repo root to analyse, default /repo)
# With ZMIR_FIXTURE=<dir under /verif/fixtures> the crate analysed is a copy of that fixture whose
# path dependencies point at the repo; only the crates in $ZMIR_ONLY are dumped.
set -u
OUT="$1"; shift
REPO="${ZMIR_REPO:-/repo}"
DRV=/verif/engine/zmir/target/release/zmir
[ -x "$DRV" ] || { echo "zmir driver missing: run /verif/setup.sh" >&2; exit 2; }
TGT=$(mktemp -d /tmp/zmir-target.XXXXXX)
mkdir -p "$OUT"
export LD_LIBRARY_PATH=$(rustc +nightly --print sysroot)/lib
export ZMIR_OUT="$OUT" CARGO_NET_OFFLINE=true RUSTFLAGS="-Zmir-opt-level=0 -Awarnings" CARGO_TARGET_DIR="$TGT"
if [ -n "${ZMIR_FIXTURE:-}" ]; then
  SRC="$TGT/fixture-src"
  mkdir -p "$SRC"
  cp -r "/verif/fixtures/$ZMIR_FIXTURE/." "$SRC/" || exit 2
  sed -i "s#@REPO@#$REPO#g" "$SRC/Cargo.toml"
  cp "$REPO/Cargo.lock" "$SRC/Cargo.lock"
  cd "$SRC" || exit 2
  ZMIR_DRV="$DRV" RUSTC_WRAPPER=/verif/engine/crate_filter.sh \
  cargo +nightly check --offline "$@" > "$OUT/cargo.log" 2>&1
  rc=$?
else
  cd "$REPO" || exit 2
  RUSTC_WORKSPACE_WRAPPER="$DRV" \
  cargo +nightly check --offline "$@" > "$OUT/cargo.log" 2>&1
  rc=$?
fi
rm -rf "$TGT"
exit $rc
