#!/bin/bash
# usage: run_zmir.sh <out-dir> <cargo check args...>   (cwd = repo root to analyse, default /repo)
set -u
OUT="$1"; shift
REPO="${ZMIR_REPO:-/repo}"
DRV=/verif/engine/zmir/target/release/zmir
[ -x "$DRV" ] || { echo "zmir driver missing: run /verif/setup.sh" >&2; exit 2; }
TGT=$(mktemp -d /tmp/zmir-target.XXXXXX)
mkdir -p "$OUT"
cd "$REPO" || exit 2
LD_LIBRARY_PATH=$(rustc +nightly --print sysroot)/lib \
ZMIR_OUT="$OUT" CARGO_NET_OFFLINE=true \
RUSTFLAGS="-Zmir-opt-level=0 -Awarnings" \
RUSTC_WORKSPACE_WRAPPER="$DRV" CARGO_TARGET_DIR="$TGT" \
cargo +nightly check --offline "$@" > "$OUT/cargo.log" 2>&1
rc=$?
rm -rf "$TGT"
exit $rc
