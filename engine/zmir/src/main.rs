// zmir: MIR fact extractor for the zbus static checks.
//
// Runs as RUSTC_WORKSPACE_WRAPPER (argv[1] = path of the real rustc, dropped). For every
// workspace crate it compiles, it writes one JSON fact file to $ZMIR_OUT:
//   <crate>-<pid>.json
// Facts: function bodies (pre-drop-elaboration MIR = `mir_promoted`, which still has `Yield`
// terminators and user variable names), coroutine witnesses, ADTs, consts, impls.
#![feature(rustc_private)]

extern crate rustc_abi;
extern crate rustc_driver;
extern crate rustc_hir;
extern crate rustc_index;
extern crate rustc_interface;
extern crate rustc_middle;
extern crate rustc_session;
extern crate rustc_span;

use rustc_driver::Compilation;
use rustc_hir::def::DefKind;
use rustc_hir::def_id::{DefId, LocalDefId, LOCAL_CRATE};
use rustc_middle::mir::*;
use rustc_middle::ty::print::{with_crate_prefix, with_no_trimmed_paths, with_no_visible_paths, PrintTraitRefExt};
use rustc_middle::ty::{self, Instance, Ty, TyCtxt, TypingEnv};
use rustc_span::{ExpnKind, Span};
use std::fmt::Write as _;
use std::sync::Mutex;

static BODIES: Mutex<Vec<(u32, String)>> = Mutex::new(Vec::new());
static DUMPED: Mutex<Vec<u32>> = Mutex::new(Vec::new());

// ---------------------------------------------------------------- JSON helpers
fn jstr(out: &mut String, s: &str) {
    out.push('"');
    for c in s.chars() {
        match c {
            '"' => out.push_str("\\\""),
            '\\' => out.push_str("\\\\"),
            '\n' => out.push_str("\\n"),
            '\r' => out.push_str("\\r"),
            '\t' => out.push_str("\\t"),
            c if (c as u32) < 0x20 => {
                let _ = write!(out, "\\u{:04x}", c as u32);
            }
            c => out.push(c),
        }
    }
    out.push('"');
}
fn js(s: &str) -> String {
    let mut o = String::new();
    jstr(&mut o, s);
    o
}
fn jopt(s: &Option<String>) -> String {
    match s {
        Some(s) => js(s),
        None => "null".into(),
    }
}

// ---------------------------------------------------------------- naming
struct Cx<'tcx> {
    tcx: TyCtxt<'tcx>,
    krate: String,
}

impl<'tcx> Cx<'tcx> {
    fn fix(&self, s: String) -> String {
        // `crate::` -> `<crate name>::`
        let pat = "crate::";
        if !s.contains(pat) {
            return s;
        }
        let mut out = String::with_capacity(s.len() + 16);
        let b = s.as_bytes();
        let mut i = 0;
        while i < b.len() {
            if s[i..].starts_with(pat)
                && (i == 0 || !(b[i - 1].is_ascii_alphanumeric() || b[i - 1] == b'_'))
            {
                out.push_str(&self.krate);
                out.push_str("::");
                i += pat.len();
            } else {
                let ch = s[i..].chars().next().unwrap();
                out.push(ch);
                i += ch.len_utf8();
            }
        }
        out
    }
    fn path(&self, did: DefId) -> String {
        let s = with_no_trimmed_paths!(with_no_visible_paths!(with_crate_prefix!(
            self.tcx.def_path_str(did)
        )));
        self.fix(s)
    }
    fn path_args(&self, did: DefId, args: ty::GenericArgsRef<'tcx>) -> String {
        let s = with_no_trimmed_paths!(with_no_visible_paths!(with_crate_prefix!(
            self.tcx.def_path_str_with_args(did, args)
        )));
        self.fix(s)
    }
    fn ty(&self, t: Ty<'tcx>) -> String {
        let s = with_no_trimmed_paths!(with_no_visible_paths!(with_crate_prefix!(format!(
            "{}", t
        ))));
        self.fix(s)
    }
    fn is_ws_file(&self, sp: Span) -> bool {
        let sm = self.tcx.sess.source_map();
        let f = sm.lookup_source_file(sp.lo());
        match &f.name {
            rustc_span::FileName::Real(r) => {
                let p = format!("{}", r.path(rustc_span::RemapPathScopeComponents::DIAGNOSTICS).display());
                !(p.starts_with("/rustc/") || p.contains("/.cargo/registry/") || p.contains("/rustlib/src/"))
            }
            _ => false,
        }
    }
    // span resolved to workspace source: walk out of foreign macro expansions
    fn ws_span(&self, mut sp: Span) -> Span {
        let mut n = 0;
        while sp.from_expansion() && !self.is_ws_file(sp) && n < 32 {
            sp = sp.ctxt().outer_expn_data().call_site;
            n += 1;
        }
        sp
    }
    fn file_of(&self, sp: Span) -> String {
        let sm = self.tcx.sess.source_map();
        let f = sm.lookup_source_file(sp.lo());
        match &f.name {
            rustc_span::FileName::Real(r) => {
                format!("{}", r.path(rustc_span::RemapPathScopeComponents::DIAGNOSTICS).display())
            }
            other => format!("{:?}", other),
        }
    }
    // [lo_line, lo_col, hi_line, hi_col]
    fn span4(&self, sp: Span) -> [usize; 4] {
        let sm = self.tcx.sess.source_map();
        let lo = sm.lookup_char_pos(sp.lo());
        let hi = sm.lookup_char_pos(sp.hi());
        [lo.line, lo.col.0, hi.line, hi.col.0]
    }
    fn line(&self, sp: Span) -> usize {
        let sm = self.tcx.sess.source_map();
        sm.lookup_char_pos(sp.lo()).line
    }
    // description of the macro/desugaring chain a span comes from, innermost first
    fn expn(&self, sp: Span) -> Option<String> {
        if !sp.from_expansion() {
            return None;
        }
        let mut v = Vec::new();
        let mut s = sp;
        let mut n = 0;
        while s.from_expansion() && n < 8 {
            let d = s.ctxt().outer_expn_data();
            match d.kind {
                ExpnKind::Macro(_, name) => v.push(format!("{}!", name)),
                ExpnKind::Desugaring(k) => v.push(format!("desugar:{:?}", k)),
                ExpnKind::AstPass(k) => v.push(format!("ast:{:?}", k)),
                ExpnKind::Root => {}
            }
            s = d.call_site;
            n += 1;
        }
        Some(v.join("<"))
    }
}

// ---------------------------------------------------------------- MIR dump
struct BodyDump<'a, 'tcx> {
    cx: &'a Cx<'tcx>,
    body: &'a Body<'tcx>,
    def: LocalDefId,
    tenv: TypingEnv<'tcx>,
    promoted: Option<&'a rustc_index::IndexVec<Promoted, Body<'tcx>>>,
}

impl<'a, 'tcx> BodyDump<'a, 'tcx> {
    fn place(&self, p: &Place<'tcx>) -> String {
        let tcx = self.cx.tcx;
        let mut o = String::new();
        let _ = write!(o, "[{},[", p.local.as_u32());
        let mut pty = PlaceTy::from_ty(self.body.local_decls[p.local].ty);
        let mut first = true;
        for elem in p.projection.iter() {
            if !first {
                o.push(',');
            }
            first = false;
            match elem {
                ProjectionElem::Deref => o.push_str("\"*\""),
                ProjectionElem::Field(f, fty) => {
                    // field name + owner
                    let (name, owner) = match pty.ty.kind() {
                        ty::Adt(adt, _) => {
                            let vidx = pty.variant_index.unwrap_or(rustc_abi::FIRST_VARIANT);
                            let v = adt.variant(vidx);
                            let fname = v.fields[f].name.to_string();
                            let owner = if adt.is_enum() {
                                format!("{}::{}", self.cx.path(adt.did()), v.name)
                            } else {
                                self.cx.path(adt.did())
                            };
                            (fname, owner)
                        }
                        ty::Closure(did, _) | ty::Coroutine(did, _) | ty::CoroutineClosure(did, _) => {
                            let names = tcx.closure_saved_names_of_captured_variables(*did);
                            let n = names
                                .get(f)
                                .map(|s| s.to_string())
                                .unwrap_or_else(|| format!("{}", f.as_u32()));
                            (n, format!("upvar:{}", self.cx.path(*did)))
                        }
                        ty::Tuple(_) => (format!("{}", f.as_u32()), "tuple".to_string()),
                        _ => (format!("{}", f.as_u32()), "?".to_string()),
                    };
                    let _ = write!(o, "[\".\",{},{},{},{}]", f.as_u32(), js(&name), js(&owner), js(&self.cx.ty(fty)));
                }
                ProjectionElem::Index(l) => {
                    let _ = write!(o, "[\"[]\",{}]", l.as_u32());
                }
                ProjectionElem::ConstantIndex { offset, min_length, from_end } => {
                    let _ = write!(o, "[\"[c]\",{},{},{}]", offset, min_length, from_end);
                }
                ProjectionElem::Subslice { from, to, from_end } => {
                    let _ = write!(o, "[\"[..]\",{},{},{}]", from, to, from_end);
                }
                ProjectionElem::Downcast(name, vidx) => {
                    let n = name.map(|s| s.to_string()).unwrap_or_default();
                    let _ = write!(o, "[\"as\",{},{}]", js(&n), vidx.as_u32());
                }
                ProjectionElem::OpaqueCast(_) => o.push_str("\"opaque\""),
                ProjectionElem::UnwrapUnsafeBinder(_) => o.push_str("\"unbind\""),
            }
            pty = pty.projection_ty(tcx, elem);
        }
        o.push_str("]]");
        o
    }

    fn place_ty(&self, p: &Place<'tcx>) -> Ty<'tcx> {
        p.ty(&self.body.local_decls, self.cx.tcx).ty
    }

    fn constant(&self, c: &ConstOperand<'tcx>) -> String {
        let tcx = self.cx.tcx;
        let ty = c.const_.ty();
        let mut o = String::new();
        o.push_str("{\"ty\":");
        jstr(&mut o, &self.cx.ty(ty));
        match ty.kind() {
            ty::FnDef(did, args) => {
                let _ = write!(o, ",\"fn\":{}", js(&self.cx.path(*did)));
                let _ = write!(o, ",\"fnargs\":{}", js(&self.cx.path_args(*did, args)));
            }
            _ => {}
        }
        // promoted?
        if let Const::Unevaluated(uv, _) = c.const_ {
            if let Some(p) = uv.promoted {
                let _ = write!(o, ",\"promoted\":{}", p.as_u32());
                if let Some(pv) = self.promoted_value(p) {
                    let _ = write!(o, ",\"pv\":{}", pv);
                }
                if let Some((d, a)) = self.promoted_source(p) {
                    let _ = write!(o, ",\"pdef\":{},\"pargs\":{}", js(&d), js(&a));
                }
            } else {
                let _ = write!(o, ",\"cdef\":{}", js(&self.cx.path(uv.def)));
                let _ = write!(o, ",\"cargs\":{}", js(&self.cx.path_args(uv.def, uv.args)));
            }
        }
        // reference to a static
        if let Const::Val(ConstValue::Scalar(rustc_middle::mir::interpret::Scalar::Ptr(ptr, _)), _) = c.const_ {
            let (prov, _off) = ptr.prov_and_relative_offset();
            if let Some(rustc_middle::mir::interpret::GlobalAlloc::Static(sd)) = tcx.try_get_global_alloc(prov.alloc_id()) {
                let _ = write!(o, ",\"static\":{}", js(&self.cx.path(sd)));
            }
        }
        // value
        if let Some(v) = self.const_value(&c.const_, ty) {
            let _ = write!(o, ",\"v\":{}", v);
        }
        o.push('}');
        o
    }

    /// value of a promoted constant, when its body is a simple chain of refs / constants / arrays
    fn promoted_value(&self, p: Promoted) -> Option<String> {
        let promoted = self.promoted?;
        let pb = promoted.get(p)?;
        let sub = BodyDump { cx: self.cx, body: pb, def: self.def, tenv: self.tenv, promoted: None };
        sub.local_value(RETURN_PLACE, 0)
    }

    /// the named constant a promoted refers to (`&<T as Trait>::CONST` and chains of refs / casts of it)
    fn promoted_source(&self, p: Promoted) -> Option<(String, String)> {
        let promoted = self.promoted?;
        let pb = promoted.get(p)?;
        let sub = BodyDump { cx: self.cx, body: pb, def: self.def, tenv: self.tenv, promoted: None };
        sub.local_source(RETURN_PLACE, 0)
    }

    fn local_source(&self, l: Local, depth: usize) -> Option<(String, String)> {
        if depth > 6 {
            return None;
        }
        let mut found: Option<&Rvalue<'tcx>> = None;
        for data in self.body.basic_blocks.iter() {
            for st in &data.statements {
                if let StatementKind::Assign(b) = &st.kind {
                    let (pl, rv) = &**b;
                    if pl.local == l && pl.projection.is_empty() {
                        if found.is_some() {
                            return None;
                        }
                        found = Some(rv);
                    }
                }
            }
        }
        let rv = found?;
        let opv = |op: &Operand<'tcx>| -> Option<(String, String)> {
            match op {
                Operand::Constant(c) => match c.const_ {
                    Const::Unevaluated(uv, _) if uv.promoted.is_none() => {
                        Some((self.cx.path(uv.def), self.cx.path_args(uv.def, uv.args)))
                    }
                    _ => None,
                },
                Operand::Copy(p) | Operand::Move(p) if p.projection.is_empty() => self.local_source(p.local, depth + 1),
                _ => None,
            }
        };
        match rv {
            Rvalue::Use(op, ..) => opv(op),
            Rvalue::Ref(_, _, p) if p.projection.is_empty() => self.local_source(p.local, depth + 1),
            Rvalue::Cast(_, op, _) => opv(op),
            _ => None,
        }
    }

    fn local_value(&self, l: Local, depth: usize) -> Option<String> {
        if depth > 6 {
            return None;
        }
        // the unique assignment to `l`
        let mut found: Option<&Rvalue<'tcx>> = None;
        for data in self.body.basic_blocks.iter() {
            for st in &data.statements {
                if let StatementKind::Assign(b) = &st.kind {
                    let (pl, rv) = &**b;
                    if pl.local == l && pl.projection.is_empty() {
                        if found.is_some() {
                            return None;
                        }
                        found = Some(rv);
                    }
                }
            }
        }
        let rv = found?;
        let opv = |op: &Operand<'tcx>| -> Option<String> {
            match op {
                Operand::Constant(c) => self.const_value(&c.const_, c.const_.ty()),
                Operand::Copy(p) | Operand::Move(p) if p.projection.is_empty() => self.local_value(p.local, depth + 1),
                _ => None,
            }
        };
        match rv {
            Rvalue::Use(op, ..) => opv(op),
            Rvalue::Ref(_, _, p) if p.projection.is_empty() => self.local_value(p.local, depth + 1),
            Rvalue::Cast(_, op, _) => opv(op),
            Rvalue::Aggregate(kind, ops) => {
                let tag = match &**kind {
                    AggregateKind::Array(_) => "array".to_string(),
                    AggregateKind::Tuple => "tuple".to_string(),
                    AggregateKind::Adt(did, vidx, ..) => {
                        let adt = self.cx.tcx.adt_def(*did);
                        format!("{}::{}", self.cx.path(*did), adt.variant(*vidx).name)
                    }
                    _ => return None,
                };
                let mut s = format!("{{\"agg\":{},\"items\":[", js(&tag));
                for (i, op) in ops.iter().enumerate() {
                    if i > 0 {
                        s.push(',');
                    }
                    s.push_str(&opv(op).unwrap_or_else(|| "null".into()));
                }
                s.push_str("]}");
                Some(s)
            }
            _ => None,
        }
    }

    fn const_value(&self, c: &Const<'tcx>, ty: Ty<'tcx>) -> Option<String> {
        let tcx = self.cx.tcx;
        // avoid evaluating generic-dependent consts
        let is_scalarish = ty.is_integral() || ty.is_bool() || ty.is_char();
        if is_scalarish {
            if let Const::Unevaluated(uv, _) = c {
                if uv.promoted.is_some() {
                    return None;
                }
                use rustc_middle::ty::TypeVisitableExt;
                if uv.args.has_non_region_param() {
                    return None;
                }
            }
            if let Some(si) = c.try_eval_scalar_int(tcx, self.tenv) {
                let size = si.size();
                if ty.is_bool() {
                    return Some(if si.to_bits(size) != 0 { "true".into() } else { "false".into() });
                }
                if ty.is_char() {
                    let u = si.to_bits(size) as u32;
                    return Some(js(&char::from_u32(u).map(|c| c.to_string()).unwrap_or_default()));
                }
                if ty.is_signed() {
                    return Some(format!("{}", si.to_int(size)));
                }
                return Some(format!("{}", si.to_bits(size)));
            }
            return None;
        }
        // type-level constants (match patterns): valtrees
        if let Const::Ty(cty, ct) = c {
            if let Some(val) = ct.try_to_value() {
                if let ty::Ref(_, inner, _) = cty.kind() {
                    if inner.is_str() {
                        if let Some(bytes) = val.try_to_raw_bytes(tcx) {
                            return Some(js(&String::from_utf8_lossy(bytes)));
                        }
                    }
                    let is_bytes = match inner.kind() {
                        ty::Array(e, _) | ty::Slice(e) => *e == tcx.types.u8,
                        _ => false,
                    };
                    if is_bytes {
                        if let Some(bytes) = val.try_to_raw_bytes(tcx) {
                            let mut s = String::from("{\"bytes\":[");
                            for (i, b) in bytes.iter().enumerate() {
                                if i > 0 {
                                    s.push(',');
                                }
                                let _ = write!(s, "{}", b);
                            }
                            s.push_str("]}");
                            return Some(s);
                        }
                    }
                }
            }
            return None;
        }
        // &str literals
        if let ty::Ref(_, inner, _) = ty.kind() {
            if inner.is_str() {
                if let Const::Val(val, _) = c {
                    if matches!(val, ConstValue::Slice { .. } | ConstValue::Indirect { .. }) {
                        if let Some(bytes) = val.try_get_slice_bytes_for_diagnostics(tcx) {
                            return Some(js(&String::from_utf8_lossy(bytes)));
                        }
                    }
                }
            }
            // byte string literals &[u8; N] / &[u8]
            let (is_bytes, is_array) = match inner.kind() {
                ty::Array(e, _) => (*e == tcx.types.u8, true),
                ty::Slice(e) => (*e == tcx.types.u8, false),
                _ => (false, false),
            };
            if is_bytes {
                if let Const::Val(val, _) = c {
                    let bytes: Option<Vec<u8>> = match val {
                        ConstValue::Slice { .. } | ConstValue::Indirect { .. } if !is_array => {
                            val.try_get_slice_bytes_for_diagnostics(tcx).map(|b| b.to_vec())
                        }
                        ConstValue::Scalar(rustc_middle::mir::interpret::Scalar::Ptr(ptr, _)) if is_array => {
                            let (prov, off) = ptr.prov_and_relative_offset();
                            match tcx.try_get_global_alloc(prov.alloc_id()) {
                                Some(rustc_middle::mir::interpret::GlobalAlloc::Memory(m)) => {
                                    let a = m.inner();
                                    let start = off.bytes() as usize;
                                    let len = a.len();
                                    if start <= len {
                                        Some(a.inspect_with_uninit_and_ptr_outside_interpreter(start..len).to_vec())
                                    } else {
                                        None
                                    }
                                }
                                _ => None,
                            }
                        }
                        _ => None,
                    };
                    if let Some(bytes) = bytes {
                        let mut s = String::from("{\"bytes\":[");
                        for (i, b) in bytes.iter().enumerate() {
                            if i > 0 {
                                s.push(',');
                            }
                            let _ = write!(s, "{}", b);
                        }
                        s.push_str("]}");
                        return Some(s);
                    }
                }
            }
        }
        if ty.is_floating_point() {
            return Some(js(&format!("{}", c)));
        }
        None
    }

    fn operand(&self, op: &Operand<'tcx>) -> String {
        match op {
            Operand::Copy(p) => format!("[\"c\",{}]", self.place(p)),
            Operand::Move(p) => format!("[\"m\",{}]", self.place(p)),
            Operand::Constant(c) => format!("[\"k\",{}]", self.constant(c)),
            #[allow(unreachable_patterns)]
            _ => "[\"?\"]".to_string(),
        }
    }

    fn rvalue(&self, rv: &Rvalue<'tcx>) -> String {
        let tcx = self.cx.tcx;
        match rv {
            Rvalue::Use(op, ..) => format!("[\"use\",{}]", self.operand(op)),
            Rvalue::Repeat(op, n) => format!("[\"repeat\",{},{}]", self.operand(op), js(&format!("{}", n))),
            Rvalue::Ref(_, bk, p) => {
                let m = match bk {
                    BorrowKind::Shared => "shared",
                    BorrowKind::Fake(_) => "fake",
                    BorrowKind::Mut { .. } => "mut",
                };
                format!("[\"ref\",\"{}\",{}]", m, self.place(p))
            }
            Rvalue::ThreadLocalRef(did) => format!("[\"tlref\",{}]", js(&self.cx.path(*did))),
            Rvalue::RawPtr(k, p) => format!("[\"rawptr\",{},{}]", js(&format!("{:?}", k)), self.place(p)),
            Rvalue::Cast(kind, op, ty) => {
                format!("[\"cast\",{},{},{}]", js(&format!("{:?}", kind)), self.operand(op), js(&self.cx.ty(*ty)))
            }
            Rvalue::BinaryOp(op, ab) => {
                let (a, b) = &**ab;
                format!("[\"bin\",\"{:?}\",{},{}]", op, self.operand(a), self.operand(b))
            }
            Rvalue::UnaryOp(op, a) => format!("[\"un\",\"{:?}\",{}]", op, self.operand(a)),
            Rvalue::Discriminant(p) => {
                let t = self.place_ty(p);
                let adt = match t.kind() {
                    ty::Adt(a, _) => self.cx.path(a.did()),
                    _ => self.cx.ty(t),
                };
                format!("[\"discr\",{},{}]", self.place(p), js(&adt))
            }
            Rvalue::Aggregate(kind, ops) => {
                let mut o = String::from("[\"agg\",");
                match &**kind {
                    AggregateKind::Array(t) => {
                        let _ = write!(o, "\"array\",{},null", js(&self.cx.ty(*t)));
                    }
                    AggregateKind::Tuple => o.push_str("\"tuple\",null,null"),
                    AggregateKind::Adt(did, vidx, _args, _, _) => {
                        let adt = tcx.adt_def(*did);
                        let v = adt.variant(*vidx);
                        let _ = write!(o, "\"adt\",{},{}", js(&self.cx.path(*did)), js(&v.name.to_string()));
                    }
                    AggregateKind::Closure(did, _) => {
                        let _ = write!(o, "\"closure\",{},null", js(&self.cx.path(*did)));
                    }
                    AggregateKind::Coroutine(did, _) => {
                        let _ = write!(o, "\"coroutine\",{},null", js(&self.cx.path(*did)));
                    }
                    AggregateKind::CoroutineClosure(did, _) => {
                        let _ = write!(o, "\"coroutine_closure\",{},null", js(&self.cx.path(*did)));
                    }
                    AggregateKind::RawPtr(..) => o.push_str("\"rawptr\",null,null"),
                }
                o.push_str(",[");
                for (i, op) in ops.iter().enumerate() {
                    if i > 0 {
                        o.push(',');
                    }
                    o.push_str(&self.operand(op));
                }
                o.push_str("]");
                // field names for ADTs
                if let AggregateKind::Adt(did, vidx, _, _, active) = &**kind {
                    let adt = tcx.adt_def(*did);
                    let v = adt.variant(*vidx);
                    o.push_str(",[");
                    if let Some(a) = active {
                        o.push_str(&js(&v.fields[*a].name.to_string()));
                    } else {
                        for (i, f) in v.fields.iter().enumerate() {
                            if i > 0 {
                                o.push(',');
                            }
                            o.push_str(&js(&f.name.to_string()));
                        }
                    }
                    o.push(']');
                }
                o.push(']');
                o
            }
            Rvalue::CopyForDeref(p) => format!("[\"use\",[\"c\",{}]]", self.place(p)),
            Rvalue::WrapUnsafeBinder(op, _) => format!("[\"use\",{}]", self.operand(op)),
            #[allow(unreachable_patterns)]
            other => format!("[\"other\",{}]", js(&format!("{:?}", other))),
        }
    }

    fn call(&self, func: &Operand<'tcx>, args: &[rustc_span::Spanned<Operand<'tcx>>], dest: &Place<'tcx>,
            target: Option<BasicBlock>, unwind: &UnwindAction, fn_span: Span, span: Span) -> String {
        let tcx = self.cx.tcx;
        let mut o = String::from("[\"call\",{");
        let fty = func.ty(&self.body.local_decls, tcx);
        match fty.kind() {
            ty::FnDef(did, gargs) => {
                let _ = write!(o, "\"fn\":{}", js(&self.cx.path(*did)));
                let _ = write!(o, ",\"fnargs\":{}", js(&self.cx.path_args(*did, gargs)));
                // generic args as list
                o.push_str(",\"gargs\":[");
                let mut first = true;
                for a in gargs.iter() {
                    if let Some(t) = a.as_type() {
                        if !first {
                            o.push(',');
                        }
                        first = false;
                        o.push_str(&js(&self.cx.ty(t)));
                    }
                }
                o.push(']');
                // resolve
                let res = Instance::try_resolve(tcx, self.tenv, *did, gargs);
                if let Ok(Some(inst)) = res {
                    let rd = inst.def_id();
                    let _ = write!(o, ",\"res\":{}", js(&self.cx.path(rd)));
                    let kind = match inst.def {
                        ty::InstanceKind::Item(_) => "item",
                        ty::InstanceKind::Virtual(..) => "virtual",
                        ty::InstanceKind::ClosureOnceShim { .. } => "closure_once",
                        ty::InstanceKind::FnPtrShim(..) => "fnptr_shim",
                        ty::InstanceKind::DropGlue(..) => "drop_glue",
                        ty::InstanceKind::CloneShim(..) => "clone_shim",
                        ty::InstanceKind::Intrinsic(_) => "intrinsic",
                        _ => "other",
                    };
                    let _ = write!(o, ",\"resk\":\"{}\"", kind);
                    // when the receiver is a closure / coroutine, name it
                    if let Some(t0) = inst.args.types().next() {
                        match t0.kind() {
                            ty::Closure(cd, _) | ty::Coroutine(cd, _) | ty::CoroutineClosure(cd, _) => {
                                let _ = write!(o, ",\"selfclosure\":{}", js(&self.cx.path(*cd)));
                            }
                            _ => {}
                        }
                    }
                }
                // trait of declared callee
                if let Some(tr) = tcx.trait_of_assoc(*did) {
                    let _ = write!(o, ",\"trait\":{}", js(&self.cx.path(tr)));
                }
            }
            ty::FnPtr(..) => {
                let _ = write!(o, "\"fnptr\":{}", self.operand(func));
            }
            _ => {
                let _ = write!(o, "\"fnval\":{},\"fnty\":{}", self.operand(func), js(&self.cx.ty(fty)));
            }
        }
        o.push_str(",\"args\":[");
        for (i, a) in args.iter().enumerate() {
            if i > 0 {
                o.push(',');
            }
            o.push_str(&self.operand(&a.node));
        }
        o.push_str("],\"argtys\":[");
        for (i, a) in args.iter().enumerate() {
            if i > 0 {
                o.push(',');
            }
            o.push_str(&js(&self.cx.ty(a.node.ty(&self.body.local_decls, tcx))));
        }
        let _ = write!(o, "],\"dest\":{}", self.place(dest));
        let _ = write!(o, ",\"destty\":{}", js(&self.cx.ty(self.place_ty(dest))));
        match target {
            Some(t) => {
                let _ = write!(o, ",\"t\":{}", t.as_u32());
            }
            None => o.push_str(",\"t\":null"),
        }
        match unwind {
            UnwindAction::Cleanup(b) => {
                let _ = write!(o, ",\"uw\":{}", b.as_u32());
            }
            _ => o.push_str(",\"uw\":null"),
        }
        let ws = self.cx.ws_span(span);
        let s4 = self.cx.span4(ws);
        let _ = write!(o, ",\"sp\":[{},{},{},{}]", s4[0], s4[1], s4[2], s4[3]);
        let wf = self.cx.ws_span(fn_span);
        let f4 = self.cx.span4(wf);
        let _ = write!(o, ",\"fsp\":[{},{},{},{}]", f4[0], f4[1], f4[2], f4[3]);
        if let Some(e) = self.cx.expn(span) {
            let _ = write!(o, ",\"x\":{}", js(&e));
        }
        o.push_str("}]");
        o
    }

    fn terminator(&self, t: &Terminator<'tcx>) -> String {
        let tcx = self.cx.tcx;
        let span = t.source_info.span;
        let uw = |u: &UnwindAction| match u {
            UnwindAction::Cleanup(b) => format!("{}", b.as_u32()),
            _ => "null".to_string(),
        };
        match &t.kind {
            TerminatorKind::Goto { target } => format!("[\"goto\",{}]", target.as_u32()),
            TerminatorKind::SwitchInt { discr, targets } => {
                let dty = discr.ty(&self.body.local_decls, tcx);
                let mut o = format!("[\"switch\",{},{},[", self.operand(discr), js(&self.cx.ty(dty)));
                for (i, (v, b)) in targets.iter().enumerate() {
                    if i > 0 {
                        o.push(',');
                    }
                    // print signed values as signed
                    let vs = if dty.is_signed() {
                        let bits = match dty.kind() {
                            ty::Int(it) => it.bit_width().unwrap_or(64),
                            _ => 128,
                        };
                        let shift = 128 - bits as u32;
                        format!("{}", ((v << shift) as i128) >> shift)
                    } else {
                        format!("{}", v)
                    };
                    let _ = write!(o, "[{},{}]", vs, b.as_u32());
                }
                let _ = write!(o, "],{}", targets.otherwise().as_u32());
                let l = self.cx.line(self.cx.ws_span(span));
                let _ = write!(o, ",{}", l);
                match self.cx.expn(span) {
                    Some(e) => {
                        let _ = write!(o, ",{}", js(&e));
                    }
                    None => o.push_str(",null"),
                }
                o.push(']');
                o
            }
            TerminatorKind::UnwindResume => "[\"resume\"]".into(),
            TerminatorKind::UnwindTerminate(_) => "[\"abort\"]".into(),
            TerminatorKind::Return => "[\"ret\"]".into(),
            TerminatorKind::Unreachable => "[\"unreach\"]".into(),
            TerminatorKind::Drop { place, target, unwind, .. } => {
                format!(
                    "[\"drop\",{},{},{},{},{}]",
                    self.place(place),
                    target.as_u32(),
                    uw(unwind),
                    js(&self.cx.ty(self.place_ty(place))),
                    self.cx.line(self.cx.ws_span(span))
                )
            }
            TerminatorKind::Call { func, args, destination, target, unwind, fn_span, .. } => {
                self.call(func, args, destination, *target, unwind, *fn_span, span)
            }
            TerminatorKind::TailCall { func, args, fn_span } => {
                let dest = Place::return_place();
                self.call(func, args, &dest, None, &UnwindAction::Continue, *fn_span, span)
            }
            TerminatorKind::Assert { cond, expected, msg, target, unwind } => {
                let kind = match &**msg {
                    AssertKind::BoundsCheck { len, index } => {
                        format!("[\"bounds\",{},{}]", self.operand(len), self.operand(index))
                    }
                    AssertKind::Overflow(op, a, b) => {
                        format!("[\"overflow\",\"{:?}\",{},{}]", op, self.operand(a), self.operand(b))
                    }
                    AssertKind::OverflowNeg(a) => format!("[\"overflow_neg\",{}]", self.operand(a)),
                    AssertKind::DivisionByZero(a) => format!("[\"div_zero\",{}]", self.operand(a)),
                    AssertKind::RemainderByZero(a) => format!("[\"rem_zero\",{}]", self.operand(a)),
                    AssertKind::ResumedAfterReturn(_) => "[\"resumed_after_return\"]".into(),
                    AssertKind::ResumedAfterPanic(_) => "[\"resumed_after_panic\"]".into(),
                    AssertKind::ResumedAfterDrop(_) => "[\"resumed_after_drop\"]".into(),
                    AssertKind::MisalignedPointerDereference { .. } => "[\"misaligned\"]".into(),
                    AssertKind::NullPointerDereference => "[\"nullptr\"]".into(),
                    AssertKind::InvalidEnumConstruction(_) => "[\"invalid_enum\"]".into(),
                };
                let l = self.cx.line(self.cx.ws_span(span));
                format!(
                    "[\"assert\",{},{},{},{},{},{},{}]",
                    self.operand(cond),
                    expected,
                    kind,
                    target.as_u32(),
                    uw(unwind),
                    l,
                    jopt(&self.cx.expn(span))
                )
            }
            TerminatorKind::Yield { value, resume, resume_arg, drop } => {
                let ws = self.cx.ws_span(span);
                let s4 = self.cx.span4(ws);
                format!(
                    "[\"yield\",{},{},{},{},[{},{},{},{}],{}]",
                    self.operand(value),
                    resume.as_u32(),
                    self.place(resume_arg),
                    drop.map(|d| format!("{}", d.as_u32())).unwrap_or("null".into()),
                    s4[0],
                    s4[1],
                    s4[2],
                    s4[3],
                    jopt(&self.cx.expn(span))
                )
            }
            TerminatorKind::CoroutineDrop => "[\"codrop\"]".into(),
            TerminatorKind::FalseEdge { real_target, .. } => format!("[\"goto\",{}]", real_target.as_u32()),
            TerminatorKind::FalseUnwind { real_target, .. } => format!("[\"goto\",{}]", real_target.as_u32()),
            TerminatorKind::InlineAsm { .. } => "[\"asm\"]".into(),
        }
    }

    fn dump(&self) -> String {
        let tcx = self.cx.tcx;
        let body = self.body;
        let did = self.def.to_def_id();
        let mut o = String::with_capacity(4096);
        o.push('{');
        let _ = write!(o, "\"id\":{}", js(&self.cx.path(did)));
        let dk = tcx.def_kind(did);
        let kind = if tcx.is_coroutine(did) {
            "coroutine".to_string()
        } else {
            format!("{:?}", dk)
        };
        let _ = write!(o, ",\"kind\":{}", js(&kind));
        let _ = write!(o, ",\"name\":{}", js(&tcx.opt_item_name(did).map(|s| s.to_string()).unwrap_or_default()));
        // parent (for closures / coroutines: the enclosing fn)
        let tc = tcx.typeck_root_def_id(did);
        if tc != did {
            let _ = write!(o, ",\"root\":{}", js(&self.cx.path(tc)));
        }
        if let Some(p) = tcx.opt_parent(did) {
            let _ = write!(o, ",\"parent\":{}", js(&self.cx.path(p)));
        }
        // impl info of the typeck root
        if let Some(impl_did) = tcx.impl_of_assoc(tc) {
            let self_ty = tcx.type_of(impl_did).instantiate_identity().skip_norm_wip();
            let _ = write!(o, ",\"impl_self\":{}", js(&self.cx.ty(self_ty)));
            if let ty::Adt(a, _) = self_ty.peel_refs().kind() {
                let _ = write!(o, ",\"impl_adt\":{}", js(&self.cx.path(a.did())));
            }
            if let Some(tr) = tcx.impl_opt_trait_ref(impl_did) {
                let tr = tr.instantiate_identity().skip_norm_wip();
                let _ = write!(o, ",\"impl_trait\":{}", js(&self.cx.path(tr.def_id)));
                let _ = write!(o, ",\"impl_trait_full\":{}", js(&self.cx.fix(with_no_trimmed_paths!(with_no_visible_paths!(with_crate_prefix!(format!("{}", tr.print_only_trait_path())))))));
            }
        }
        if matches!(dk, DefKind::Fn | DefKind::AssocFn) {
            let _ = write!(o, ",\"vis\":{}", js(&format!("{:?}", tcx.visibility(did))));
        }
        let dspan = tcx.def_span(did);
        let full = body.span;
        let _ = write!(o, ",\"file\":{}", js(&self.cx.file_of(self.cx.ws_span(full))));
        let s4 = self.cx.span4(self.cx.ws_span(full));
        let _ = write!(o, ",\"span\":[{},{},{},{}]", s4[0], s4[1], s4[2], s4[3]);
        if let Some(e) = self.cx.expn(dspan) {
            let _ = write!(o, ",\"macro\":{}", js(&e));
        }
        let _ = write!(o, ",\"argc\":{}", body.arg_count);
        // locals
        let mut names: Vec<Option<String>> = vec![None; body.local_decls.len()];
        // upvar / composite debuginfo
        let mut dbg = String::from("[");
        let mut first = true;
        for vdi in &body.var_debug_info {
            if let VarDebugInfoContents::Place(p) = &vdi.value {
                if p.projection.is_empty() {
                    names[p.local.as_usize()] = Some(vdi.name.to_string());
                } else {
                    if !first {
                        dbg.push(',');
                    }
                    first = false;
                    let _ = write!(dbg, "[{},{}]", js(&vdi.name.to_string()), self.place(p));
                }
            }
        }
        dbg.push(']');
        o.push_str(",\"locals\":[");
        for (i, (_l, d)) in body.local_decls.iter_enumerated().enumerate() {
            if i > 0 {
                o.push(',');
            }
            let _ = write!(o, "[{},{}]", js(&self.cx.ty(d.ty)), jopt(&names[i]));
        }
        o.push(']');
        let _ = write!(o, ",\"dbg\":{}", dbg);
        // blocks
        o.push_str(",\"blocks\":[");
        for (bi, (_bb, data)) in body.basic_blocks.iter_enumerated().enumerate() {
            if bi > 0 {
                o.push(',');
            }
            o.push_str("{\"s\":[");
            let mut first = true;
            for st in &data.statements {
                let s = match &st.kind {
                    StatementKind::Assign(b) => {
                        let (p, rv) = &**b;
                        let l = self.cx.line(self.cx.ws_span(st.source_info.span));
                        Some(format!("[\"=\",{},{},{}]", self.place(p), self.rvalue(rv), l))
                    }
                    StatementKind::SetDiscriminant { place, variant_index } => {
                        Some(format!("[\"sd\",{},{}]", self.place(place), variant_index.as_u32()))
                    }
                    _ => None,
                };
                if let Some(s) = s {
                    if !first {
                        o.push(',');
                    }
                    first = false;
                    o.push_str(&s);
                }
            }
            o.push_str("],\"t\":");
            match &data.terminator {
                Some(t) => o.push_str(&self.terminator(t)),
                None => o.push_str("[\"none\"]"),
            }
            if data.is_cleanup {
                o.push_str(",\"c\":1");
            }
            o.push('}');
        }
        o.push_str("]}");
        o
    }
}

fn dump_body<'tcx>(tcx: TyCtxt<'tcx>, def: LocalDefId, body: &Body<'tcx>, promoted: Option<&rustc_index::IndexVec<Promoted, Body<'tcx>>>) {
    {
        let mut d = DUMPED.lock().unwrap();
        let idx = def.local_def_index.as_u32();
        if d.contains(&idx) {
            return;
        }
        d.push(idx);
    }
    let cx = Cx { tcx, krate: tcx.crate_name(LOCAL_CRATE).to_string() };
    let tenv = TypingEnv::post_analysis(tcx, def.to_def_id());
    let bd = BodyDump { cx: &cx, body, def, tenv, promoted };
    let s = bd.dump();
    BODIES.lock().unwrap().push((def.local_def_index.as_u32(), s));
}

fn layout_json<'tcx>(cx: &Cx<'tcx>, layout: &CoroutineLayout<'tcx>, o: &mut String) {
    o.push_str("\"fields\":[");
    for (i, (idx, f)) in layout.field_tys.iter_enumerated().enumerate() {
        if i > 0 {
            o.push(',');
        }
        let name = layout.field_names.get(idx).and_then(|n| n.map(|s| s.to_string()));
        let sp = cx.ws_span(f.source_info.span);
        let _ = write!(o, "[{},{},{}]", js(&cx.ty(f.ty)), jopt(&name), cx.line(sp));
    }
    o.push_str("],\"variants\":[");
    for (i, (vidx, fields)) in layout.variant_fields.iter_enumerated().enumerate() {
        if i > 0 {
            o.push(',');
        }
        let si = layout.variant_source_info[vidx];
        let sp = cx.ws_span(si.span);
        let s4 = cx.span4(sp);
        let _ = write!(o, "{{\"sp\":[{},{},{},{}],\"saved\":[", s4[0], s4[1], s4[2], s4[3]);
        for (j, sl) in fields.iter().enumerate() {
            if j > 0 {
                o.push(',');
            }
            let _ = write!(o, "{}", sl.as_u32());
        }
        o.push_str("]}");
    }
    o.push(']');
}

// ---------------------------------------------------------------- whole-crate facts
fn dump_crate<'tcx>(tcx: TyCtxt<'tcx>) -> String {
    let cx = Cx { tcx, krate: tcx.crate_name(LOCAL_CRATE).to_string() };
    let mut o = String::new();
    o.push('{');
    let _ = write!(o, "\"crate\":{}", js(&cx.krate));
    {
        // command-line facts: features, extra-filename, externs
        let args: Vec<String> = std::env::args().collect();
        let mut feats = Vec::new();
        let mut externs = Vec::new();
        let mut extra = String::new();
        let mut crate_type = String::new();
        let mut is_test = false;
        let mut i = 0;
        while i < args.len() {
            let a = &args[i];
            if a == "--cfg" && i + 1 < args.len() {
                if let Some(f) = args[i + 1].strip_prefix("feature=") {
                    feats.push(f.trim_matches('"').to_string());
                }
                i += 1;
            } else if a == "--extern" && i + 1 < args.len() {
                externs.push(args[i + 1].clone());
                i += 1;
            } else if a == "-C" && i + 1 < args.len() {
                if let Some(e) = args[i + 1].strip_prefix("extra-filename=") {
                    extra = e.to_string();
                }
                i += 1;
            } else if a == "--crate-type" && i + 1 < args.len() {
                crate_type = args[i + 1].clone();
                i += 1;
            } else if a == "--test" {
                is_test = true;
            }
            i += 1;
        }
        let _ = write!(o, ",\"features\":[{}]", feats.iter().map(|f| js(f)).collect::<Vec<_>>().join(","));
        let _ = write!(o, ",\"externs\":[{}]", externs.iter().map(|f| js(f)).collect::<Vec<_>>().join(","));
        let _ = write!(o, ",\"extra\":{},\"crate_type\":{},\"is_test\":{}", js(&extra), js(&crate_type), is_test);
    }
    // --- bodies not yet stolen
    let already: std::collections::HashSet<u32> = BODIES.lock().unwrap().iter().map(|(i, _)| *i).collect();
    let mut missing = Vec::new();
    for def in tcx.hir_body_owners() {
        if already.contains(&def.local_def_index.as_u32()) {
            continue;
        }
        let dk = tcx.def_kind(def);
        if !matches!(dk, DefKind::Fn | DefKind::AssocFn | DefKind::Closure | DefKind::Const { .. } | DefKind::AssocConst { .. } | DefKind::Static { .. } | DefKind::SyntheticCoroutineBody) {
            continue;
        }
        if matches!(dk, DefKind::Const { .. } | DefKind::AssocConst { .. } | DefKind::Static { .. }) {
            continue;
        }
        let (steal, prom) = tcx.mir_promoted(def);
        if steal.is_stolen() {
            missing.push(cx.path(def.to_def_id()));
            continue;
        }
        let b = steal.borrow();
        if prom.is_stolen() {
            dump_body(tcx, def, &b, None);
        } else {
            let pb = prom.borrow();
            dump_body(tcx, def, &b, Some(&*pb));
        }
    }
    o.push_str(",\"missing\":[");
    for (i, m) in missing.iter().enumerate() {
        if i > 0 {
            o.push(',');
        }
        o.push_str(&js(m));
    }
    o.push(']');
    // --- coroutine witnesses
    o.push_str(",\"coroutines\":[");
    let mut first = true;
    for def in tcx.hir_body_owners() {
        if !tcx.is_coroutine(def.to_def_id()) {
            continue;
        }
        let Some(layout) = tcx.mir_coroutine_witnesses(def.to_def_id()) else { continue };
        if !first {
            o.push(',');
        }
        first = false;
        let _ = write!(o, "{{\"id\":{}", js(&cx.path(def.to_def_id())));
        o.push(',');
        layout_json(&cx, layout, &mut o);
        // precise layout computed by the state transform on drop-elaborated MIR
        let opt = tcx.optimized_mir(def.to_def_id());
        if let Some(l2) = opt.coroutine_layout_raw() {
            o.push_str(",\"opt\":{");
            layout_json(&cx, l2, &mut o);
            o.push('}');
        }
        o.push('}');
    }
    o.push(']');
    // --- ADTs, consts, statics, impls
    o.push_str(",\"adts\":[");
    let mut first = true;
    let mut consts = String::from("[");
    let mut cfirst = true;
    let mut statics = String::from("[");
    let mut sfirst = true;
    let mut impls = String::from("[");
    let mut ifirst = true;
    let mut fns = String::from("[");
    let mut ffirst = true;
    for id in tcx.hir_crate_items(()).definitions() {
        let did = id.to_def_id();
        match tcx.def_kind(did) {
            DefKind::Struct | DefKind::Enum | DefKind::Union => {
                let adt = tcx.adt_def(did);
                if !first {
                    o.push(',');
                }
                first = false;
                let _ = write!(o, "{{\"id\":{},\"kind\":{},\"vis\":{}", js(&cx.path(did)), js(&format!("{:?}", tcx.def_kind(did))), js(&format!("{:?}", tcx.visibility(did))));
                let sp = tcx.def_span(did);
                let _ = write!(o, ",\"file\":{},\"line\":{}", js(&cx.file_of(cx.ws_span(sp))), cx.line(cx.ws_span(sp)));
                if let Some(e) = cx.expn(sp) {
                    let _ = write!(o, ",\"macro\":{}", js(&e));
                }
                o.push_str(",\"variants\":[");
                for (vi, (vidx, v)) in adt.variants().iter_enumerated().enumerate() {
                    if vi > 0 {
                        o.push(',');
                    }
                    let discr = if adt.is_enum() {
                        format!("{}", adt.discriminant_for_variant(tcx, vidx).val)
                    } else {
                        "0".into()
                    };
                    let _ = write!(o, "{{\"name\":{},\"idx\":{},\"discr\":{},\"fields\":[", js(&v.name.to_string()), vidx.as_u32(), js(&discr));
                    for (fi, f) in v.fields.iter().enumerate() {
                        if fi > 0 {
                            o.push(',');
                        }
                        let fty = tcx.type_of(f.did).instantiate_identity().skip_norm_wip();
                        let _ = write!(o, "[{},{},{}]", js(&f.name.to_string()), js(&cx.ty(fty)), js(&format!("{:?}", f.vis)));
                    }
                    o.push_str("]}");
                }
                o.push_str("]}");
            }
            DefKind::Const { .. } | DefKind::AssocConst { .. } => {
                use rustc_middle::ty::TypeVisitableExt;
                let ty = tcx.type_of(did).instantiate_identity().skip_norm_wip();
                let generics = tcx.generics_of(did);
                let mut val: Option<String> = None;
                if generics.count() == 0 && !ty.has_non_region_param() && (ty.is_integral() || ty.is_bool() || ty.is_char()) {
                    // only evaluate items with a body (skip trait assoc consts without default)
                    let has_body = tcx.hir_maybe_body_owned_by(id).is_some();
                    if has_body {
                        if let Ok(v) = tcx.const_eval_poly(did) {
                            if let Some(si) = v.try_to_scalar_int() {
                                let size = si.size();
                                val = Some(if ty.is_signed() { format!("{}", si.to_int(size)) } else { format!("{}", si.to_bits(size)) });
                            }
                        }
                    }
                }
                if !cfirst {
                    consts.push(',');
                }
                cfirst = false;
                let _ = write!(consts, "{{\"id\":{},\"ty\":{},\"v\":{}}}", js(&cx.path(did)), js(&cx.ty(ty)), val.unwrap_or("null".into()));
            }
            DefKind::Static { .. } => {
                let ty = tcx.type_of(did).instantiate_identity().skip_norm_wip();
                if !sfirst {
                    statics.push(',');
                }
                sfirst = false;
                let _ = write!(statics, "{{\"id\":{},\"ty\":{}}}", js(&cx.path(did)), js(&cx.ty(ty)));
            }
            DefKind::Impl { .. } => {
                let self_ty = tcx.type_of(did).instantiate_identity().skip_norm_wip();
                if !ifirst {
                    impls.push(',');
                }
                ifirst = false;
                let _ = write!(impls, "{{\"id\":{},\"self\":{}", js(&cx.path(did)), js(&cx.ty(self_ty)));
                if let ty::Adt(a, _) = self_ty.peel_refs().kind() {
                    let _ = write!(impls, ",\"adt\":{}", js(&cx.path(a.did())));
                }
                if let Some(tr) = tcx.impl_opt_trait_ref(did) {
                    let tr = tr.instantiate_identity().skip_norm_wip();
                    let _ = write!(impls, ",\"trait\":{}", js(&cx.path(tr.def_id)));
                    let _ = write!(impls, ",\"trait_full\":{}", js(&cx.fix(with_no_trimmed_paths!(with_no_visible_paths!(with_crate_prefix!(format!("{}", tr.print_only_trait_path())))))));
                }
                let sp = tcx.def_span(did);
                let _ = write!(impls, ",\"file\":{},\"line\":{}", js(&cx.file_of(cx.ws_span(sp))), cx.line(cx.ws_span(sp)));
                if let Some(e) = cx.expn(sp) {
                    let _ = write!(impls, ",\"macro\":{}", js(&e));
                }
                impls.push_str(",\"items\":[");
                for (k, it) in tcx.associated_item_def_ids(did).iter().enumerate() {
                    if k > 0 {
                        impls.push(',');
                    }
                    impls.push_str(&js(&cx.path(*it)));
                }
                impls.push_str("]}");
            }
            DefKind::Fn | DefKind::AssocFn => {
                // signature-level facts for every fn (also those without bodies)
                if !ffirst {
                    fns.push(',');
                }
                ffirst = false;
                let sig = tcx.fn_sig(did).instantiate_identity().skip_norm_wip();
                let _ = write!(fns, "{{\"id\":{},\"vis\":{},\"sig\":{}", js(&cx.path(did)), js(&format!("{:?}", tcx.visibility(did))), js(&cx.fix(with_no_trimmed_paths!(with_no_visible_paths!(with_crate_prefix!(format!("{}", sig)))))));
                let safety = format!("{:?}", sig.safety());
                let _ = write!(fns, ",\"safety\":{}}}", js(&safety));
            }
            _ => {}
        }
    }
    o.push(']');
    consts.push(']');
    statics.push(']');
    impls.push(']');
    fns.push(']');
    let _ = write!(o, ",\"consts\":{},\"statics\":{},\"impls\":{},\"fns\":{}", consts, statics, impls, fns);
    // --- bodies
    o.push_str(",\"bodies\":[");
    let mut bodies = std::mem::take(&mut *BODIES.lock().unwrap());
    bodies.sort_by_key(|(i, _)| *i);
    for (i, (_, b)) in bodies.iter().enumerate() {
        if i > 0 {
            o.push(',');
        }
        o.push_str(b);
        o.push('\n');
    }
    o.push_str("]}");
    o
}

// ---------------------------------------------------------------- driver
struct Cb;

type ElabProvider = for<'tcx> fn(TyCtxt<'tcx>, LocalDefId) -> &'tcx rustc_data_structures::steal::Steal<Body<'tcx>>;
static ORIG_ELAB: std::sync::OnceLock<ElabProvider> = std::sync::OnceLock::new();

extern crate rustc_data_structures;

fn my_elab<'tcx>(tcx: TyCtxt<'tcx>, def: LocalDefId) -> &'tcx rustc_data_structures::steal::Steal<Body<'tcx>> {
    {
        let dk = tcx.def_kind(def);
        if matches!(dk, DefKind::Fn | DefKind::AssocFn | DefKind::Closure | DefKind::SyntheticCoroutineBody) {
            let (steal, prom) = tcx.mir_promoted(def);
            if !steal.is_stolen() {
                let b = steal.borrow();
                if prom.is_stolen() {
                    dump_body(tcx, def, &b, None);
                } else {
                    let pb = prom.borrow();
                    dump_body(tcx, def, &b, Some(&*pb));
                }
            }
        }
    }
    (ORIG_ELAB.get().unwrap())(tcx, def)
}

impl rustc_driver::Callbacks for Cb {
    fn config(&mut self, config: &mut rustc_interface::interface::Config) {
        config.override_queries = Some(|_sess, providers| {
            let _ = ORIG_ELAB.set(providers.queries.mir_drops_elaborated_and_const_checked);
            providers.queries.mir_drops_elaborated_and_const_checked = my_elab;
        });
    }
    fn after_analysis<'tcx>(&mut self, _c: &rustc_interface::interface::Compiler, tcx: TyCtxt<'tcx>) -> Compilation {
        let out = std::env::var("ZMIR_OUT").unwrap_or_else(|_| "/tmp/zmir-out".into());
        let _ = std::fs::create_dir_all(&out);
        let s = dump_crate(tcx);
        let name = format!("{}/{}-{}.json", out, tcx.crate_name(LOCAL_CRATE), std::process::id());
        let tmp = format!("{}.tmp", name);
        std::fs::write(&tmp, s).expect("zmir: cannot write facts");
        std::fs::rename(&tmp, &name).expect("zmir: rename");
        Compilation::Continue
    }
}

fn main() {
    let mut args: Vec<String> = std::env::args().collect();
    // RUSTC_WORKSPACE_WRAPPER: argv[1] is the real rustc path
    if args.len() > 1 && (args[1].ends_with("rustc") || args[1].contains("/rustc")) {
        args.remove(1);
    }
    // only analyse when asked for a crate (skip `rustc -vV` style probes)
    let is_probe = args.iter().any(|a| a == "-vV" || a == "--version" || a.starts_with("--print"));
    let analyse = !is_probe && std::env::var("ZMIR_OUT").is_ok();
    if analyse {
        let mut cb = Cb;
        rustc_driver::run_compiler(&args, &mut cb);
    } else {
        struct Nop;
        impl rustc_driver::Callbacks for Nop {}
        rustc_driver::run_compiler(&args, &mut Nop);
    }
}
